#!/bin/bash
# Offline setup: regenerate the corpus-derived harness sources and warm the Kani and native builds.
cd "$(dirname "$0")"
export CARGO_NET_OFFLINE=true
mkdir -p .build
python3 driver/gen_manifest.py >/dev/null
( cd refgen && cargo build --offline --target-dir ../.build/refgen >/dev/null 2>&1 && ../.build/refgen/debug/refgen ../corpus ../harness/src/gen >/dev/null ) || echo "warning: refgen failed; using the committed harness/src/gen"
( cd harness && RUSTFLAGS="--cfg pest_typed_verif" cargo build --offline --target-dir ../.build/native --bin replay --bin refcheck >/dev/null 2>&1 ) || echo "warning: native warm-up build failed"
( cd harness && cargo kani --target-dir ../.build/kani -Z unstable-options -Z stubbing --only-codegen --exact --harness c13::c13_span_new_3 >/dev/null 2>&1 ) || echo "warning: kani warm-up build failed"
echo "setup done"
