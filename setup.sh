#!/bin/bash
# Offline setup: warm the Kani and native builds of the harness crate (dependencies only change with /repo).
set -e
cd "$(dirname "$0")"
export CARGO_NET_OFFLINE=true
mkdir -p .build
python3 driver/gen_manifest.py >/dev/null
( cd harness && RUSTFLAGS="--cfg pest_typed_verif" cargo build --offline --target-dir ../.build/native --bin replay >/dev/null 2>&1 ) || echo "warning: native warm-up build failed"
( cd harness && cargo kani --target-dir ../.build/kani -Z unstable-options -Z stubbing --only-codegen --exact --harness c13::c13_span_new_3 >/dev/null 2>&1 ) || echo "warning: kani warm-up build failed"
echo "setup done"
