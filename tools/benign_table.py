#!/usr/bin/env python3
"""Print the false-alarm probe table (markdown) from benign/*/meta.json."""
import json, glob, os
print('| change | file(s) | checks run (quick tier) | result |')
print('|---|---|---|---|')
for p in sorted(glob.glob('/verif/benign/*/meta.json')):
    m = json.load(open(p))
    det = m.get('detected_by', [])
    bad = [d for d in det if d.get('exit') != 0]
    res = 'all exit 0' if det and not bad else ('not run' if not det else '; '.join('%s exit %s' % (d['check'], d['exit']) for d in bad))
    print('| %s | %s | %s | %s |' % (m['id'], ', '.join(os.path.basename(f) for f in m['files_changed']), ', '.join(d['check'] for d in det), res))
