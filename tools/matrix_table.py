#!/usr/bin/env python3
"""Print the seeded-change detection table (markdown) from seeded/*/meta.json."""
import json, glob, os
rows = []
for p in sorted(glob.glob('/verif/seeded/*/meta.json')):
    m = json.load(open(p))
    det = m.get('detected_by', [])
    caught = [d for d in det if d.get('exit') == 1]
    inconcl = [d for d in det if d.get('exit') == 2]
    if caught:
        verdict = 'caught'
        by = '; '.join('%s (%s)' % (d['check'], ', '.join(h.split('-')[1] for h in d['violation_harnesses'][:2]) or ', '.join(d['failing_harnesses'][:2]) or 'harness crate no longer compiles: rustc error in the module whose compilation is claimed') for d in caught)
    elif inconcl:
        verdict = 'inconclusive'
        by = '; '.join('%s (failing: %s)' % (d['check'], ', '.join(d['failing_harnesses'][:2])) for d in inconcl)
    elif det:
        verdict = 'missed'
        by = 'ran: ' + ', '.join(d['check'] for d in det)
    else:
        verdict = 'not run'
        by = ''
    if m.get('history') and verdict == 'caught':
        verdict = 'caught (after strengthening)'
    rows.append((m['id'], ', '.join(os.path.basename(f) for f in m['files_changed']), m['needs_to_manifest'][:110], verdict, by))
print('| change | file(s) | needs | result | by |')
print('|---|---|---|---|---|')
for r in rows:
    print('| %s | %s | %s | %s | %s |' % r)
