#!/bin/bash
# usage: matrix.sh <slot> <mutant-id> <PROP> [PROP...]  — records which checks catch a seeded change
slot=$1; id=$2; shift 2
base=${BASE:-/verif/seeded}
out=$base/$id/detect.log
: > $out
for p in "$@"; do
  SLOT=$slot /verif/tools/try_mutant.sh $base/$id/patch.diff $p >> $out 2>&1
done
python3 - "$id" "$base" <<'PY'
import json,re,sys
id=sys.argv[1]; base=sys.argv[2]
log=open('%s/%s/detect.log'%(base,id)).read()
res={}
cur=None
for l in log.splitlines():
    m=re.match(r'### (C\d+) against',l)
    if m: cur=m.group(1); res[cur]={'rc':None,'violations':[],'failing':[]}
    m=re.match(r'VIOLATION property=(\S+) replay=\S*/(\S+)\.json',l)
    if m and cur: res[cur]['violations'].append(m.group(2))
    m=re.match(r'\s+(c\d\d_\w+)\s+fail',l)
    if m and cur: res[cur]['failing'].append(m.group(1))
    m=re.match(r'rc=(\d+)',l)
    if m and cur: res[cur]['rc']=int(m.group(1))
p='%s/%s/meta.json'%(base,id)
meta=json.load(open(p))
meta['detected_by']=[{'check':k,'exit':v['rc'],'violation_harnesses':v['violations'],'failing_harnesses':v['failing']} for k,v in res.items()]
json.dump(meta,open(p,'w'),indent=1)
print(id, {k:(v['rc'], v['violations'][:1]) for k,v in res.items()})
PY
