#!/usr/bin/env python3
"""keep_mutant.py <ID> <A|B> "<needs>"  — store a confirmed seeded change under /verif/seeded/<ID>-<M>/"""
import json, os, shutil, sys, re
pid, m, needs = sys.argv[1], sys.argv[2], sys.argv[3]
src = "/tmp/wt/%s-out" % pid
dst = "/verif/seeded/%s-%s" % (pid, m)
os.makedirs(dst, exist_ok=True)
shutil.copy(os.path.join(src, m + ".patch.diff"), os.path.join(dst, "patch.diff"))
shutil.copy(os.path.join(src, m + ".demo.rs"), os.path.join(dst, "demo.rs"))
notes = open(os.path.join(src, "notes.md")).read()
open(os.path.join(dst, "notes.md"), "w").write(notes)
place = re.search(r"place at: *(\S+)", open(os.path.join(dst, "demo.rs")).read()).group(1)
files = sorted(set(re.findall(r"^\+\+\+ b/(\S+)", open(os.path.join(dst, "patch.diff")).read(), re.M)))
meta = dict(
    id="%s-%s" % (pid, m), property=pid[:3], files_changed=files, demo_place_at=place, needs_to_manifest=needs,
    produced_by="independent sub-agent given only the property text and a scratch worktree",
    confirmed=dict(
        how="tools/verify_mutant.sh in a scratch worktree of /repo (HEAD incl. the fix: commit)",
        ran=["cargo test -p <pkg> --test <demo> --offline on the clean tree -> pass",
             "git apply patch.diff; cargo test --workspace --no-fail-fast --offline -> all existing tests pass",
             "cargo test -p <pkg> --test <demo> --offline with the patch -> fails"],
        result="VERIFIED",
    ),
    detected_by=[],
)
json.dump(meta, open(os.path.join(dst, "meta.json"), "w"), indent=1)
print("kept", dst)
