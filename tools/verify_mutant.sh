#!/bin/bash
# usage: verify_mutant.sh <worktree> <outdir> <A|B>   -> prints VERIFIED or a reason; leaves the worktree clean
# Confirms: (1) patch applies & compiles & existing suite passes, (2) demo fails with it, (3) demo passes without it.
wt=$1; out=$2; m=$3
cd "$wt" || exit 2
git checkout -q -- . ; git clean -fdq -e target
patch="$out/$m.patch.diff"; demo="$out/$m.demo.rs"
place=$(head -5 "$demo" | grep -o 'place at: *[^ ]*' | head -1 | sed 's/place at: *//')
[ -z "$place" ] && { echo "NO-PLACE-LINE"; exit 1; }
tname=$(basename "$place" .rs); crate=$(echo "$place" | cut -d/ -f1)
pkg=pest_typed_derive; [ "$crate" = main ] && pkg=pest_typed; [ "$crate" = generator ] && pkg=pest_typed_generator
export CARGO_NET_OFFLINE=true
# (3) demo passes on the clean tree
cp "$demo" "$place"
cargo test -p $pkg --test "$tname" --offline > "$out/$m.verify.clean-demo.log" 2>&1; rc_clean=$?
rm -f "$place"
# (1)+(2) with the mutant
git apply "$patch" || { echo "PATCH-DOES-NOT-APPLY"; exit 1; }
cargo test --workspace --no-fail-fast --offline > "$out/$m.verify.suite.log" 2>&1; rc_suite=$?
cp "$demo" "$place"
cargo test -p $pkg --test "$tname" --offline > "$out/$m.verify.mut-demo.log" 2>&1; rc_mut=$?
rm -f "$place"; git checkout -q -- . ; git clean -fdq -e target
echo "clean-demo rc=$rc_clean (want 0)  suite-with-mutant rc=$rc_suite (want 0)  demo-with-mutant rc=$rc_mut (want != 0)"
if [ $rc_clean -eq 0 ] && [ $rc_suite -eq 0 ] && [ $rc_mut -ne 0 ]; then echo "VERIFIED $wt $m"; else echo "NOT-VERIFIED $wt $m"; fi
