#!/bin/bash
# usage: try_mutant.sh <patch.diff> <PROP> [PROP...]  — run checks against a scratch worktree with the patch applied
# (development aid; the official procedure applies the patch to /repo itself). Env: TIER (quick), SLOT (1)
patch=$(readlink -f "$1"); shift
slot=${SLOT:-1}
wt=/tmp/wt/try-$slot
git -C /repo worktree remove --force $wt 2>/dev/null
git -C /repo worktree add -q --detach $wt HEAD || exit 2
git -C $wt apply "$patch" || { echo "patch does not apply"; git -C /repo worktree remove --force $wt; exit 2; }
for p in "$@"; do
  echo "### $p against $(basename $(dirname $patch))/$(basename $patch)"
  PV_REPO=$wt PV_BUILD=/verif/.build-mut$slot /verif/check $p --tier ${TIER:-quick} 2>&1 | grep -E "VIOLATION|INCONCLUSIVE|^OK|KNOWN-FINDING|fail |BUILD FAILED|^  - " | cut -c1-220
  echo "rc=${PIPESTATUS[0]}"
done
git -C /repo worktree remove --force $wt
