#!/bin/bash
# usage: run_matrix.sh <slot> <list-file>   (lines: "<mutant-id> <PROP> [PROP...]")
slot=$1; list=$2
while read -r id props; do
  [ -z "$id" ] && continue
  /verif/tools/matrix.sh $slot $id $props
done < "$list"
