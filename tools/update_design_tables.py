#!/usr/bin/env python3
"""Regenerate the two generated tables of DESIGN.md (seeded-change matrix at the end of the file,
false-alarm probes between the BENIGN markers)."""
import subprocess, re
p = '/verif/DESIGN.md'
s = open(p).read()
mt = subprocess.check_output(['python3', '/verif/tools/matrix_table.py'], text=True)
bt = subprocess.check_output(['python3', '/verif/tools/benign_table.py'], text=True)
i = s.index('| change | file(s) | needs | result | by |')
s = s[:i] + mt
s = re.sub(r'<!-- BENIGN-BEGIN -->.*?<!-- BENIGN-END -->', '<!-- BENIGN-BEGIN -->\n' + bt + '<!-- BENIGN-END -->', s, flags=re.S)
open(p, 'w').write(s)
rows = [l for l in mt.splitlines()[2:]]
print(len(rows), 'changes;', sum('| caught' in l for l in rows), 'caught;', sum('| missed' in l for l in rows), 'missed;',
      sum('| inconclusive' in l for l in rows), 'inconclusive;', sum('| not run' in l for l in rows), 'not run')
