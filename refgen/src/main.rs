//! refgen: corpus/*.pest -> harness/src/gen/<name>.rs
//! For every corpus grammar emit (1) the module(s) the real pest_typed_derive macro expands (one per option
//! variant), (2) the parser pest_derive generates (native only; validation oracle), (3) the reference
//! evaluator as a composition of refpeg.rs types built from the UNOPTIMIZED pest_meta AST, (4) the harness list.
//!
//! Header comments understood in a .pest file (all optional):
//!   //! alphabet: "ab x"          bytes the symbolic input is drawn from
//!   //! n: 3 4                    input length (bytes) in the quick / thorough tier
//!   //! entries: a b              rules used as entry points (default: every non-silent rule except WHITESPACE/COMMENT)
//!   //! kinds: c01 c03 c02 c04    harness kinds to emit (check-offset, parse+check, tokens, full parse)
//!   //! variants: box rr nospan nowarn noopt all     extra option variants (C20)
//!   //! unwind: 9
use pest_meta::ast::{Expr, Rule, RuleType};
use pest_meta::parser::{self, consume_rules};
use std::collections::BTreeMap;
use std::fmt::Write as _;
use std::fs;
use std::path::Path;

struct Cfg {
    alphabet: String,
    n: (usize, usize),
    entries: Option<Vec<String>>,
    kinds: Vec<String>,
    variants: Vec<String>,
    unwind: Option<usize>,
    /// (variant, rule, finding id): harnesses expected to fail (known findings)
    known: Vec<(String, String, String)>,
    kinds_given: bool,
    /// input length for the kinds that build the tree (c02 c03 c04 c15 and option variants); default = n
    nparse: Option<(usize, usize)>,
    /// run on the real pest::Stack (no stub set S): needed where PEEK_ALL / POP_ALL / PEEK[a..b] index the stack
    /// (Index trait impls cannot be stubbed); only for straight-line rules without enclosing snapshots
    real_stack: bool,
    /// "kind:rule" pairs whose quick-length harness runs in the thorough tier only (too dear for every change)
    thorough_only: Vec<String>,
    /// `//! skip_body_check: WHITESPACE COMMENT` — also check the SKIP constant inside those rules' bodies
    skip_body_check: Vec<String>,
    /// "kind:rule" pairs not emitted at all (e.g. a token-children harness for a rule that has no child tokens)
    skip_kinds: Vec<String>,
    /// `//! tier: thorough` — every harness of this grammar runs in the thorough tier only
    all_thorough: bool,
}

fn header(text: &str) -> Cfg {
    let mut c = Cfg { alphabet: "abx".into(), n: (3, 4), entries: None, kinds: vec!["c01".into()], variants: vec![], unwind: None, known: vec![], kinds_given: false, nparse: None, real_stack: false, thorough_only: vec![], skip_kinds: vec![], all_thorough: false, skip_body_check: vec![] };
    for l in text.lines() {
        let l = l.trim();
        if let Some(r) = l.strip_prefix("//! alphabet:") {
            let r = r.trim();
            c.alphabet = r.trim_matches('"').replace("\\n", "\n").replace("\\r", "\r").replace("\\t", "\t");
        } else if let Some(r) = l.strip_prefix("//! n:") {
            let v: Vec<usize> = r.split_whitespace().map(|x| x.parse().unwrap()).collect();
            c.n = (v[0], *v.get(1).unwrap_or(&v[0]));
        } else if let Some(r) = l.strip_prefix("//! skip_body_check:") {
            c.skip_body_check = r.split_whitespace().map(String::from).collect();
        } else if let Some(r) = l.strip_prefix("//! tier:") {
            c.all_thorough = r.trim() == "thorough";
        } else if let Some(r) = l.strip_prefix("//! skip_kinds:") {
            c.skip_kinds = r.split_whitespace().map(String::from).collect();
        } else if let Some(r) = l.strip_prefix("//! thorough_only:") {
            c.thorough_only = r.split_whitespace().map(String::from).collect();
        } else if let Some(r) = l.strip_prefix("//! stack:") {
            c.real_stack = r.trim() == "real";
        } else if let Some(r) = l.strip_prefix("//! nparse:") {
            let v: Vec<usize> = r.split_whitespace().map(|x| x.parse().unwrap()).collect();
            c.nparse = Some((v[0], *v.get(1).unwrap_or(&v[0])));
        } else if let Some(r) = l.strip_prefix("//! entries:") {
            c.entries = Some(r.split_whitespace().map(String::from).collect());
        } else if let Some(r) = l.strip_prefix("//! kinds:") {
            c.kinds = r.split_whitespace().map(String::from).collect();
            c.kinds_given = true;
        } else if let Some(r) = l.strip_prefix("//! variants:") {
            c.variants = r.split_whitespace().map(String::from).collect();
        } else if let Some(r) = l.strip_prefix("//! known:") {
            let v: Vec<String> = r.split_whitespace().map(String::from).collect();
            c.known.push((v[0].clone(), v[1].clone(), v[2].clone()));
        } else if let Some(r) = l.strip_prefix("//! unwind:") {
            c.unwind = Some(r.trim().parse().unwrap());
        }
    }
    c
}

struct Gen<'a> {
    rules: &'a [Rule],
    ids: BTreeMap<String, usize>,
    wrappers: Vec<String>,
    has_ws: bool,
    has_comment: bool,
}

/// the skip expression is only named where skipping can be on (a statically atomic context never skips;
/// this also keeps the skip rules' own aliases acyclic)
fn sk(s: &str) -> &'static str {
    if s == "0" { "REmpty" } else { "SK" }
}
fn rust_str(s: &str) -> String {
    format!("{:?}", s)
}
fn rust_char(s: &str) -> String {
    format!("{:?}", s.chars().next().unwrap())
}

impl<'a> Gen<'a> {
    fn wrapper(&mut self, s: &str) -> String {
        let name = format!("W{}", self.wrappers.len());
        self.wrappers.push(format!(
            "#[derive(Clone, PartialEq)] pub struct {n}; impl StringWrapper for {n} {{ const CONTENT: &'static str = {s}; }}",
            n = name,
            s = rust_str(s)
        ));
        name
    }
    fn seq(&mut self, items: Vec<String>, s: &str) -> String {
        match items.len() {
            1 => items[0].clone(),
            2 | 3 | 4 | 5 | 6 | 13 => format!("RSeq{}<{}, {}, {}>", items.len(), sk(s), s, items.join(", ")),
            _ => {
                // nest: first ~ (rest)
                let first = items[0].clone();
                let rest = self.seq(items[1..].to_vec(), s);
                format!("RSeq2<{}, {}, {}, {}>", sk(s), s, first, rest)
            }
        }
    }
    fn choice(&mut self, items: Vec<String>) -> String {
        match items.len() {
            1 => items[0].clone(),
            2 | 3 | 4 | 5 | 13 => format!("RChoice{}<{}>", items.len(), items.join(", ")),
            _ => {
                let first = items[0].clone();
                let rest = self.choice(items[1..].to_vec());
                format!("RChoice2<{}, {}>", first, rest)
            }
        }
    }
    /// `s`: the skip flag expression of the enclosing rule ("0", "1" or "INH").
    fn expr(&mut self, e: &Expr, s: &str) -> String {
        match e {
            Expr::Str(x) => {
                let w = self.wrapper(x);
                format!("RStr<{}>", w)
            }
            Expr::Insens(x) => {
                let w = self.wrapper(x);
                format!("RInsens<{}>", w)
            }
            Expr::Range(a, b) => format!("RRange<{}, {}>", rust_char(a), rust_char(b)),
            Expr::Ident(name) => self.ident(name, s),
            Expr::PeekSlice(a, Some(b)) => format!("RPeekSlice<{{ {} }}, {{ {} }}, true>", a, b),
            Expr::PeekSlice(a, None) => format!("RPeekSlice<{{ {} }}, 0, false>", a),
            Expr::PosPred(x) => format!("RPos<{}>", self.expr(x, s)),
            Expr::NegPred(x) => format!("RNeg<{}>", self.expr(x, s)),
            Expr::Seq(_, _) => {
                let mut items = vec![];
                let mut cur = e;
                while let Expr::Seq(l, r) = cur {
                    items.push(self.expr(l, s));
                    cur = r;
                }
                items.push(self.expr(cur, s));
                self.seq(items, s)
            }
            Expr::Choice(_, _) => {
                let mut items = vec![];
                let mut cur = e;
                while let Expr::Choice(l, r) = cur {
                    items.push(self.expr(l, s));
                    cur = r;
                }
                items.push(self.expr(cur, s));
                self.choice(items)
            }
            Expr::Opt(x) => format!("ROpt<{}>", self.expr(x, s)),
            Expr::Rep(x) => format!("RRep<{}, {}, {}, 0, {{ usize::MAX }}>", sk(s), s, self.expr(x, s)),
            // pest defines e+ as e ~ e* (optimizer::unroller), including the implicit skip between the two
            Expr::RepOnce(x) => {
                let a = self.expr(x, s);
                let b = format!("RRep<{}, {}, {}, 0, {{ usize::MAX }}>", sk(s), s, self.expr(x, s));
                self.seq(vec![a, b], s)
            }
            Expr::RepExact(x, n) => {
                let items: Vec<String> = (0..*n).map(|_| self.expr(x, s)).collect();
                self.seq(items, s)
            }
            Expr::RepMin(x, n) => {
                let mut items: Vec<String> = (0..*n).map(|_| self.expr(x, s)).collect();
                items.push(format!("RRep<{}, {}, {}, 0, {{ usize::MAX }}>", sk(s), s, self.expr(x, s)));
                self.seq(items, s)
            }
            Expr::RepMax(x, n) => {
                let items: Vec<String> = (0..*n).map(|_| format!("ROpt<{}>", self.expr(x, s))).collect();
                self.seq(items, s)
            }
            Expr::RepMinMax(x, m, n) => {
                let mut items: Vec<String> = (0..*m).map(|_| self.expr(x, s)).collect();
                for _ in *m..*n {
                    items.push(format!("ROpt<{}>", self.expr(x, s)));
                }
                self.seq(items, s)
            }
            Expr::Skip(_) => panic!("Skip does not occur in the unoptimized AST"),
            Expr::Push(x) => format!("RPush<{}>", self.expr(x, s)),
        }
    }
    fn ident(&mut self, name: &str, s: &str) -> String {
        if self.ids.contains_key(name) {
            return format!("r_{}<{}>", name, s);
        }
        match name {
            "ANY" => "RAny".into(),
            "SOI" => "RSoi".into(),
            "EOI" => "RRule<0, 0, REoiRaw>".into(),
            "NEWLINE" => "RNewline".into(),
            "PEEK" => "RPeek".into(),
            "POP" => "RPop".into(),
            "DROP" => "RDrop".into(),
            "PEEK_ALL" => "RPeekAll".into(),
            "POP_ALL" => "RPopAll".into(),
            "ASCII_DIGIT" => "RRange<'0', '9'>".into(),
            "ASCII_NONZERO_DIGIT" => "RRange<'1', '9'>".into(),
            "ASCII_BIN_DIGIT" => "RRange<'0', '1'>".into(),
            "ASCII_OCT_DIGIT" => "RRange<'0', '7'>".into(),
            "ASCII_HEX_DIGIT" => "RChoice3<RRange<'0', '9'>, RRange<'a', 'f'>, RRange<'A', 'F'>>".into(),
            "ASCII_ALPHA_LOWER" => "RRange<'a', 'z'>".into(),
            "ASCII_ALPHA_UPPER" => "RRange<'A', 'Z'>".into(),
            "ASCII_ALPHA" => "RChoice2<RRange<'a', 'z'>, RRange<'A', 'Z'>>".into(),
            "ASCII_ALPHANUMERIC" => "RChoice3<RRange<'a', 'z'>, RRange<'A', 'Z'>, RRange<'0', '9'>>".into(),
            "ASCII" => "RRange<'\\x00', '\\x7f'>".into(),
            other => panic!("unsupported built-in in corpus: {}", other),
        }
    }
}

fn main() {
    let args: Vec<String> = std::env::args().collect();
    let corpus = Path::new(&args[1]);
    let outdir = Path::new(&args[2]);
    fs::create_dir_all(outdir).unwrap();
    let mut names: Vec<String> = fs::read_dir(corpus)
        .unwrap()
        .filter_map(|e| {
            let p = e.unwrap().path();
            if p.extension().map(|x| x == "pest").unwrap_or(false) {
                Some(p.file_stem().unwrap().to_string_lossy().to_string())
            } else {
                None
            }
        })
        .collect();
    names.sort();
    let mut modrs = String::from("//! generated by /verif/refgen from /verif/corpus/*.pest — do not edit\n");
    for name in &names {
        let text = fs::read_to_string(corpus.join(format!("{}.pest", name))).unwrap();
        let out = generate(name, &text);
        fs::write(outdir.join(format!("{}.rs", name)), out).unwrap();
        writeln!(modrs, "{}pub mod {};", gate(name), name).unwrap();
    }
    writeln!(modrs, "\npub fn register(v: &mut Vec<(&'static str, &'static str, fn())>) {{").unwrap();
    for name in &names {
        writeln!(modrs, "    {}{}::register(v);", gate(name), name).unwrap();
    }
    writeln!(modrs, "}}").unwrap();
    writeln!(modrs, "\n#[cfg(not(kani))]\npub fn validators() -> Vec<(&'static str, fn() -> crate::grel::Validation)> {{\n    vec![").unwrap();
    for name in &names {
        writeln!(modrs, "        {}({:?}, {}::validate as fn() -> crate::grel::Validation),", gate(name), name, name).unwrap();
    }
    writeln!(modrs, "    ]\n}}").unwrap();
    writeln!(modrs, "\npub fn grammar_text(name: &str) -> &'static str {{\n    match name {{").unwrap();
    for name in &names {
        writeln!(modrs, "        {}{:?} => {}::GRAMMAR,", gate(name), name, name).unwrap();
    }
    writeln!(modrs, "        _ => \"\",\n    }}\n}}").unwrap();
    fs::write(outdir.join("mod.rs"), modrs).unwrap();
    println!("refgen: {} grammars", names.len());
}

/// compile-only recursive grammars are built only with `--features rec` (C20), so that a change that breaks
/// their compilation cannot take the other properties' checks down with it
fn gate(name: &str) -> &'static str {
    if name.starts_with("rec_") { "#[cfg(feature = \"rec\")] " } else { "" }
}

fn variant_attrs(v: &str) -> &'static str {
    match v {
        "default" => "",
        "box" => "#[box_only_if_needed]\n",
        "rr" => "#[emit_rule_reference]\n",
        "nospan" => "#[do_not_emit_span]\n",
        "nowarn" => "#[no_warnings]\n",
        "noopt" => "#[pest_optimizer = false]\n",
        "all" => "#[box_only_if_needed]\n#[emit_rule_reference]\n#[do_not_emit_span]\n#[no_warnings]\n",
        other => panic!("unknown variant {}", other),
    }
}

fn generate(name: &str, text: &str) -> String {
    let cfg = header(text);
    let pairs = parser::parse(parser::Rule::grammar_rules, text).unwrap_or_else(|e| panic!("{}: {}", name, e));
    let rules = consume_rules(pairs).unwrap_or_else(|e| panic!("{}: {:?}", name, e));
    let mut ids = BTreeMap::new();
    for (i, r) in rules.iter().enumerate() {
        ids.insert(r.name.clone(), i + 1); // 0 = EOI
    }
    let mut g = Gen {
        rules: &rules,
        ids: ids.clone(),
        wrappers: vec![],
        has_ws: ids.contains_key("WHITESPACE"),
        has_comment: ids.contains_key("COMMENT"),
    };
    let mut o = String::new();
    writeln!(o, "//! generated by /verif/refgen from /verif/corpus/{}.pest — do not edit", name).unwrap();
    writeln!(o, "#![allow(non_camel_case_types, dead_code, unused_imports)]").unwrap();
    writeln!(o, "use crate::nd;").unwrap();
    writeln!(o, "pub const GRAMMAR: &str = {:?};", text).unwrap();
    writeln!(o, "pub const ALPHABET: &[u8] = &{:?};", cfg.alphabet.as_bytes()).unwrap();
    // ---- derive modules
    let mut variants = vec!["default".to_string()];
    variants.extend(cfg.variants.iter().cloned());
    for v in &variants {
        writeln!(o, "pub mod typed_{} {{\n    use pest_typed_derive::TypedParser;\n    #[derive(TypedParser)]\n    #[grammar_inline = {:?}]\n    {}pub struct P;\n}}", v, text, variant_attrs(v).replace('\n', "\n    ")).unwrap();
    }
    writeln!(o, "pub use typed_default as typed;").unwrap();
    writeln!(o, "#[cfg(not(kani))]\npub mod pestp {{\n    #[derive(pest_derive::Parser)]\n    #[grammar_inline = {:?}]\n    pub struct P;\n}}", text).unwrap();
    // ---- reference
    let mut body = String::new();
    // skip expression as pest's hidden::skip defines it
    let sk = match (g.has_ws, g.has_comment) {
        (false, false) => "REmpty".to_string(),
        (true, false) => "RRep<REmpty, 0, r_WHITESPACE<0>, 0, { usize::MAX }>".to_string(),
        (false, true) => "RRep<REmpty, 0, r_COMMENT<0>, 0, { usize::MAX }>".to_string(),
        (true, true) => "RSeq2<REmpty, 0, RRep<REmpty, 0, r_WHITESPACE<0>, 0, { usize::MAX }>, RRep<REmpty, 0, RSeq2<REmpty, 0, r_COMMENT<0>, RRep<REmpty, 0, r_WHITESPACE<0>, 0, { usize::MAX }>>, 0, { usize::MAX }>>".to_string(),
    };
    writeln!(body, "    /// implicit skip as pest's generated `hidden::skip` defines it\n    pub type SK = {};", sk).unwrap();
    for r in rules.iter() {
        let id = ids[&r.name];
        let is_skip_rule = r.name == "WHITESPACE" || r.name == "COMMENT";
        // atomicity of the rule's own expression
        let s = if is_skip_rule {
            "0" // pest generates WHITESPACE / COMMENT atomically whatever their modifier
        } else {
            match r.ty {
                RuleType::Normal | RuleType::Silent => "INH",
                RuleType::Atomic | RuleType::CompoundAtomic => "0",
                RuleType::NonAtomic => "1",
            }
        };
        // token kind: 0 normal, 1 silent, 2 atomic, 3 compound, 4 non-atomic, 5 silent and muting (silent skip rule)
        let kind = if is_skip_rule {
            match r.ty {
                RuleType::Silent => 5,
                _ => 2,
            }
        } else {
            match r.ty {
                RuleType::Normal => 0,
                RuleType::Silent => 1,
                RuleType::Atomic => 2,
                RuleType::CompoundAtomic => 3,
                RuleType::NonAtomic => 4,
            }
        };
        let e = g.expr(&r.expr, s);
        writeln!(body, "    pub type r_{}<const INH: usize> = RRule<{}, {}, {}>;", r.name, id, kind, e).unwrap();
    }
    let compile_only = matches!(&cfg.entries, Some(l) if l.is_empty());
    if !compile_only {
        // (a recursive grammar cannot be expressed as reference type aliases; such grammars are compile-only)
        writeln!(o, "pub mod reference {{\n    use crate::refpeg::*;\n    use pest_typed::StringWrapper;").unwrap();
        for w in &g.wrappers {
            writeln!(o, "    {}", w).unwrap();
        }
        o.push_str(&body);
        writeln!(o, "}}").unwrap();
    }
    // ---- rule ids
    writeln!(o, "pub const RULE_NAMES: &[&str] = &[\"EOI\"{}];", rules.iter().map(|r| format!(", {:?}", r.name)).collect::<String>()).unwrap();
    for v in &variants {
        writeln!(o, "pub fn rid_{}(rule__: typed_{}::Rule) -> u8 {{\n    match rule__ {{\n        typed_{}::Rule::EOI => 0,", v, v, v).unwrap();
        for r in rules.iter() {
            writeln!(o, "        typed_{}::Rule::r#{} => {},", v, r.name, ids[&r.name]).unwrap();
        }
        writeln!(o, "    }}\n}}").unwrap();
    }
    // kind table (for pruning pest's tree in the native validation)
    writeln!(o, "pub const RULE_KINDS: &[u8] = &[0{}];", rules.iter().map(|r| {
        let skip = r.name == "WHITESPACE" || r.name == "COMMENT";
        let k = match r.ty { RuleType::Normal => 0, RuleType::Silent => 1, RuleType::Atomic => 2, RuleType::CompoundAtomic => 3, RuleType::NonAtomic => 4 };
        format!(", {}", if skip && k != 1 { 2 } else if skip { 5 } else { k })
    }).collect::<String>()).unwrap();
    // rule id -> "does the rule match at pos" (C10 truthfulness; context-free grammars only)
    if !compile_only {
        writeln!(o, "pub fn ref_matches(id: u8, c: crate::refpeg::Ctx<'_>, pos: usize) -> bool {{\n    use crate::refpeg::{{RefNode, RefState}};\n    match id {{\n        0 => pos == c.end,").unwrap();
        for r in rules.iter() {
            writeln!(o, "        {} => <reference::r_{}<1> as RefNode>::eval(c, RefState::new(pos)).is_some(),", ids[&r.name], r.name).unwrap();
        }
        writeln!(o, "        _ => false,\n    }}\n}}").unwrap();
    }
    // ---- entries
    let entries: Vec<&Rule> = rules
        .iter()
        .filter(|r| match &cfg.entries {
            Some(l) => l.contains(&r.name),
            None => r.ty != RuleType::Silent && r.name != "WHITESPACE" && r.name != "COMMENT",
        })
        .collect();
    let uses_eoi = rules.iter().any(|r| format!("{:?}", r.expr).contains("Ident(\"EOI\")"));
    // ---- native validation against pest
    writeln!(o, "#[cfg(not(kani))]\npub fn validate() -> crate::grel::Validation {{\n    use pest::Parser;\n    let mut v = crate::grel::Validation::new({:?});", name).unwrap();
    for r in &entries {
        if r.ty == RuleType::Silent {
            continue;
        }
        writeln!(o, "    crate::grel::validate_rule::<reference::r_{n}<1>, _>(&mut v, {n:?}, ALPHABET, {max}, RULE_KINDS, |s| pestp::P::parse(pestp::Rule::r#{n}, s).ok().map(|p| crate::grel::flatten_pest(p, &|rule__| match rule__ {{ {eoi}{arms} }})));",
            n = r.name, max = cfg.n.1, eoi = if uses_eoi { "pestp::Rule::EOI => 0u8, " } else { "" },
            arms = rules.iter().map(|x| format!("pestp::Rule::r#{} => {}u8", x.name, ids[&x.name])).collect::<Vec<_>>().join(", ")).unwrap();
    }
    writeln!(o, "    v\n}}").unwrap();
    // ---- skip type constant (C07): WHITESPACE / COMMENT inside the generated Skipped alias carry INHERITED = 0
    let skip_check = !compile_only && (g.has_ws || g.has_comment);
    if skip_check {
        for v in &variants {
            if g.has_ws {
                writeln!(o, "impl<'i, const I: usize> crate::grel::InhOf for typed_{}::rules::WHITESPACE<'i, I> {{ const INH: usize = I; }}", v).unwrap();
            }
            if g.has_comment {
                writeln!(o, "impl<'i, const I: usize> crate::grel::InhOf for typed_{}::rules::COMMENT<'i, I> {{ const INH: usize = I; }}", v).unwrap();
            }
        }
    }
    // ---- harnesses
    writeln!(o, "harnesses! {{").unwrap();
    if skip_check {
        writeln!(o, "    fn c07_g_{g}_skiptype() [] : \"Q|corpus grammar {g}: the generated implicit-skip type (generics::Skipped) instantiates WHITESPACE/COMMENT with INHERITED = 0 (matched atomically) and, where checked, their own bodies carry SKIP = 0, in every derive option variant\" {{", g = name).unwrap();
        for v in &variants {
            writeln!(o, "        crate::grel::skip_type_is_atomic::<typed_{}::generics::Skipped<'static>>();", v).unwrap();
            for r in &cfg.skip_body_check {
                writeln!(o, "        crate::grel::skip_body_is_atomic::<<typed_{v}::rules::{r}<'static, 0> as pest_typed::RuleStruct<'static, typed_{v}::Rule>>::Inner>();", v = v, r = r).unwrap();
            }
        }
        writeln!(o, "    }}").unwrap();
    }
    let has_stack = text.contains("PUSH") || text.contains("PEEK") || text.contains("POP") || text.contains("DROP");
    let _ = has_stack;
    for (tier, ti) in [("Q", 0usize), ("T", 1usize)] {
        for r in &entries {
            for k in &cfg.kinds {
                for v in &variants {
                    if cfg.skip_kinds.iter().any(|x| x == &format!("{}:{}", k, r.name)) {
                        continue;
                    }
                    let tree_kind = k != "c01" || v != "default";
                    let np = cfg.nparse.unwrap_or(cfg.n);
                    let (nq, nt) = if tree_kind { np } else { cfg.n };
                    let n = if ti == 0 { nq } else { nt };
                    if ti == 1 && nq == nt {
                        continue;
                    }
                    let unwind = cfg.unwind.unwrap_or((n + 2).max(cfg.alphabet.len() + 1));
                    // option variants (C20): one harness per variant and rule, tokens if the grammar asks for them, offsets otherwise
                    let is_variant = v != "default";
                    if is_variant && k != &cfg.kinds[0] {
                        continue;
                    }
                    let kk: String = if is_variant {
                        if cfg.kinds.iter().any(|x| x == "c02") { "c02".into() } else { "c01".into() }
                    } else {
                        k.clone()
                    };
                    let known = cfg.known.iter().find(|(kv, kr, _)| kv == v && kr == &r.name);
                    let hname = if is_variant {
                        format!("c20_g_{}_{}_{}_{}", name, v, r.name, n)
                    } else {
                        format!("{}_g_{}_{}_{}", k, name, r.name, n)
                    };
                    let vdesc = if is_variant { format!(" [derive option variant {}]", v) } else { String::new() };
                    let (func, what) = match kk.as_str() {
                        "c01" => ("g_check", "check-path offset == reference"),
                        "c03" => ("g_parse_check", "parse path == check path == reference (offset, stack)"),
                        "c02" => ("g_tokens", "parse; Pair token tree (rule, start, end, depth) == reference tree (pest's minus pruning under @/$)"),
                        "c15" => ("g_children", "children() / as_token() / thin tokens == reference tree"),
                        "c04" => ("g_full", "try_parse_with / try_check_with Ok <=> reference: prefix, trailing skip unless atomic, end of input"),
                        "c10" => ("g_truth", "full check rejected => error location in range and not before the matched prefix; every expected rule fails there, every unexpected rule matches there (real tracker, map cut)"),
                        other => panic!("unknown kind {}", other),
                    };
                    let extra = match kk.as_str() {
                        "c02" | "c15" => format!(", rid_{}", v),
                        "c10" => format!(", rid_{}, ref_matches", v),
                        "c04" => format!(", {}", matches!(r.ty, RuleType::Atomic | RuleType::CompoundAtomic)),
                        _ => String::new(),
                    };
                    let slow = cfg.all_thorough || cfg.thorough_only.iter().any(|x| x == &format!("{}:{}", k, r.name));
                    let (t, kdesc) = match known {
                        Some((_, _, id)) => ("K".to_string(), format!(" - twin of known finding {}, expected to FAIL", id)),
                        None => (if slow { "T".to_string() } else { tier.to_string() }, String::new()),
                    };
                    if known.is_some() && tier == "T" {
                        continue;
                    }
                    writeln!(o, "    #[kani::unwind({uw})] fn {h}() [{stubs}] : \"{tier}|corpus grammar {g}, entry rule {r}{vdesc}: {what}; every input of {n} bytes over {alpha}{kdesc}\" {{\n        let buf = nd::ascii_buf::<{n}>(ALPHABET);\n        crate::grel::{func}::<typed_{v}::Rule, typed_{v}::rules::r#{r}<'_, 1>, reference::r_{r}<1>, {skt}{n}>(&buf{extra}, {real})\n    }}",
                        uw = unwind, h = hname, tier = t, g = name, r = r.name, vdesc = vdesc, what = what, n = n,
                        alpha = format!("{:?}", cfg.alphabet).replace('"', "'").replace("\\", "/"), kdesc = kdesc,
                        func = func, v = v, extra = extra, skt = if kk == "c04" { "reference::SK, " } else { "" },
                        stubs = if kk == "c10" { "T1 S F" } else if cfg.real_stack { "T0 F" } else { "T0 S F" }, real = cfg.real_stack).unwrap();
                }
            }
        }
    }
    writeln!(o, "}}").unwrap();
    o
}
