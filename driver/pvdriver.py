"""pest-typed solver-based checks: driver (Kani/CBMC orchestration, replay, evidence)."""
import fcntl
import glob
import hashlib
import json
import os
import re
import shutil
import subprocess
import sys
import time
from concurrent.futures import ThreadPoolExecutor

VERIF = os.path.dirname(os.path.dirname(os.path.abspath(__file__)))
HARNESS = os.path.join(VERIF, "harness")
BUILD = os.environ.get("PV_BUILD") or os.path.join(VERIF, ".build")
REPO = os.environ.get("PV_REPO") or "/repo"
if REPO != "/repo":
    # development aid: run the same harnesses against another checkout (e.g. a scratch worktree with a
    # seeded change) without touching /repo: a copy of the harness crate with rewritten path dependencies
    _copy = os.path.join(BUILD, "harness-src")
    os.makedirs(BUILD, exist_ok=True)
    subprocess.run(["rsync", "-a", "--delete", "--exclude", "target", HARNESS + "/", _copy + "/"], check=True)
    _ct = open(os.path.join(_copy, "Cargo.toml")).read().replace('"/repo/', '"%s/' % REPO.rstrip("/"))
    open(os.path.join(_copy, "Cargo.toml"), "w").write(_ct)
    HARNESS = _copy
sys.path.insert(0, os.path.join(VERIF, "driver"))
from props import PROPS, STUB_SETS  # noqa: E402

# evidence / replays of development runs against another checkout never touch the committed ones
OUT = VERIF if REPO == "/repo" else BUILD

HARNESS_RE = re.compile(
    r'((?:[ \t]*#\[kani::[^\]]+\]\s*)*)fn\s+(c\d\d_\w+)\(\)\s*\[([^\]]*)\]\s*:\s*"(.)\|([^"]*)"'
)


def log(*a):
    print(*a, flush=True)


def parse_harnesses(module):
    """Harness table of one source module: name, tier, stub sets, unwind, description."""
    src = open(os.path.join(HARNESS, "src", module + ".rs")).read()
    modpath = module.replace("/", "::")
    out = []
    for m in HARNESS_RE.finditer(src):
        attrs, name, sets, tier, desc = m.groups()
        uw = re.search(r"kani::unwind\((\d+)\)", attrs)
        out.append(
            dict(
                module=module,
                name=name,
                full=modpath + "::" + name,
                tier=tier,
                stubs=sets.split(),
                unwind=int(uw.group(1)) if uw else None,
                desc=desc,
            )
        )
    return out


def select(prop, tier, only=None):
    cfg = PROPS[prop]
    hs = []
    mods = []
    for mod in cfg["modules"]:
        if "*" in mod:
            for f in sorted(glob.glob(os.path.join(HARNESS, "src", mod + ".rs"))):
                m = os.path.relpath(f, os.path.join(HARNESS, "src"))[:-3]
                if not m.endswith("/mod"):
                    mods.append(m)
        else:
            mods.append(mod)
    for mod in mods:
        for h in parse_harnesses(mod):
            pats = cfg.get("patterns")
            if pats and not any(re.search(p, h["name"]) for p in pats):
                continue
            if h["tier"] == "T" and tier != "thorough":
                continue
            if h["tier"] == "X":  # disabled (kept in source for reference)
                continue
            if only and not re.search(only, h["name"]):
                continue
            hs.append(h)
    return hs


def sh(cmd, env=None, timeout=None, cwd=None):
    e = dict(os.environ)
    e.update(env or {})
    p = subprocess.run(
        cmd, shell=isinstance(cmd, str), env=e, cwd=cwd, stdout=subprocess.PIPE,
        stderr=subprocess.STDOUT, timeout=timeout, text=True, errors="replace",
    )
    return p.returncode, p.stdout


BASE_ENV = {
    "CARGO_NET_OFFLINE": "true",
    "RUST_BACKTRACE": "0",
    "CARGO_TERM_COLOR": "never",
}


def kani_cmd(target_dir, harnesses, jobs, timeout_s, extra, export_json):
    cmd = [
        "cargo", "kani", "--target-dir", target_dir, "-Z", "unstable-options", "-Z", "stubbing",
        "--exact", "--output-format", "terse", "--harness-timeout", "%ds" % timeout_s,
        "--export-json", export_json, "-j", str(jobs),
    ]
    cmd += extra
    for h in harnesses:
        cmd += ["--harness", h["full"]]
    return cmd


def clean_old_builds(target_dir):
    for d in glob.glob(os.path.join(target_dir, "kani", "*", "debug", "build", "pv_harness", "*")):
        shutil.rmtree(d, ignore_errors=True)
    for d in glob.glob(os.path.join(target_dir, "kani", "*", "debug", "deps", "pv_harness-*")):
        try:
            os.remove(d)
        except OSError:
            shutil.rmtree(d, ignore_errors=True)


def parse_terse(out):
    """Map harness -> dict(block text, verdict, failed check descriptions) from -j terse output."""
    res = {}
    cur = {}  # thread -> harness
    lines = out.splitlines()
    i = 0
    blk_owner = None
    while i < len(lines):
        ln = lines[i]
        m = re.match(r"^(?:Thread (\d+): )?Checking harness ([\w:]+)\.\.\.", ln)
        if m:
            cur[m.group(1) or "0"] = m.group(2)
            blk_owner = None
            i += 1
            continue
        m = re.match(r"^Thread (\d+):\s*$", ln)
        if m:
            blk_owner = cur.get(m.group(1))
            if blk_owner:
                res.setdefault(blk_owner, dict(text=[], verdict=None, failed=[]))
            i += 1
            continue
        if ln.startswith("VERIFICATION RESULT") and blk_owner is None and len(cur) == 1:
            blk_owner = list(cur.values())[0]
            res.setdefault(blk_owner, dict(text=[], verdict=None, failed=[]))
        if blk_owner:
            r = res[blk_owner]
            r["text"].append(ln)
            if ln.startswith("Failed Checks:"):
                r["failed"].append(ln[len("Failed Checks:"):].strip())
            m = re.match(r"^VERIFICATION:- (\w+)", ln)
            if m:
                r["verdict"] = m.group(1)
            if ln.startswith("Verification Time:"):
                blk_owner = None
        i += 1
    return res


def run_kani(harnesses, target_dir, jobs, timeout_s, mem_kb, extra, env, label):
    os.makedirs(target_dir, exist_ok=True)
    clean_old_builds(target_dir)
    export = os.path.join(BUILD, "export-%s.json" % label)
    if os.path.exists(export):
        os.remove(export)
    cmd = kani_cmd(target_dir, harnesses, jobs, timeout_s, extra, export)
    shell = "ulimit -v %d; exec %s" % (mem_kb, " ".join("'%s'" % c for c in cmd))
    t0 = time.time()
    e = dict(BASE_ENV)
    e.update(env)
    rc, out = sh(["bash", "-c", shell], env=e, cwd=HARNESS)
    wall = time.time() - t0
    with open(os.path.join(BUILD, "kani-%s.log" % label), "w") as f:
        f.write(out)
    data = None
    if os.path.exists(export):
        try:
            data = json.load(open(export))
        except Exception:
            data = None
    return rc, out, data, wall, " ".join(cmd)


def collect(harnesses, out, data):
    """Per-harness result records."""
    terse = parse_terse(out)
    recs = {}
    jd = {}
    if data:
        for sec, key in (("property_details", "property_details"), ("cbmc", "cbmc_stats"),
                         ("error_details", None), ("harness_metadata", None)):
            for it in data.get(sec, []):
                hid = it.get("harness_id") or it.get("pretty_name")
                jd.setdefault(hid, {})[sec] = it if key is None else it.get(key, {})
    for h in harnesses:
        t = terse.get(h["full"], {})
        j = jd.get(h["full"], {})
        pd = j.get("property_details") or {}
        ed = j.get("error_details") or {}
        st = j.get("cbmc") or {}
        text = "\n".join(t.get("text", []))
        m = re.search(r"Verification Time: ([\d.]+)s", text)
        vt = float(m.group(1)) if m else None
        rec = dict(
            harness=h["full"], tier=h["tier"], desc=h["desc"], stubs=h["stubs"], unwind=h["unwind"],
            verdict=t.get("verdict"), failed_checks=t.get("failed", []),
            total=pd.get("total_properties"), passed=pd.get("passed"), failed=pd.get("failed"),
            undetermined=pd.get("undetermined"), covers_sat=pd.get("satisfied"),
            covers_unsat=pd.get("unsatisfiable"), solver_error=pd.get("solver_error"),
            exit_status=ed.get("exit_status"), error_type=ed.get("error_type"),
            verification_time_s=vt,
            symex_s=st.get("runtime_symex_s"), solver_s=st.get("runtime_solver_s"),
            vccs=st.get("vccs_generated"), program_size=st.get("size_program_expression"),
            goto_file=(j.get("harness_metadata", {}) or {}).get("goto_file"),
        )
        # classification
        if rec["verdict"] == "SUCCESSFUL" and (rec["failed"] in (0, None)) and not rec["undetermined"]:
            if rec["covers_unsat"]:
                rec["status"] = "vacuous"
            elif rec["total"] is None:
                rec["status"] = "error"
            else:
                rec["status"] = "pass"
        elif rec["verdict"] == "FAILED" and rec["failed"]:
            if any("unwinding assertion" in f for f in rec["failed_checks"]):
                rec["status"] = "unwind"
            else:
                rec["status"] = "fail"
        elif rec["verdict"] == "FAILED":
            # failed without failed properties: timeout / OOM / cbmc error
            rec["status"] = "error"
        else:
            rec["status"] = "error"
        recs[h["full"]] = rec
    return recs


def functions_encoded(rec):
    gf = rec.get("goto_file")
    if not gf:
        return []
    out_file = gf.replace(".symtab.out", ".out")
    if not os.path.exists(out_file):
        return []
    try:
        rc, out = sh(["cbmc", out_file, "--show-properties", "--json-ui"], timeout=120)
        d = json.loads(out)
        props = [x for x in d if isinstance(x, dict) and "properties" in x][0]["properties"]
    except Exception:
        return []
    def strip_generics(x):
        prev = None
        x = x.replace("->", "")
        while prev != x:
            prev = x
            x = re.sub(r"<[^<>]*>", "", x)
        return re.sub(r"::+", "::", x).strip(": ")

    def short(fn):
        # monomorphic name -> generic name: `<Type<..> as Trait<..>>::method::<..>::{closure#0}` -> `Type::method`
        fn = re.sub(r"::\{closure#\d+\}", "", fn)
        if fn.startswith("<"):
            depth = 0
            for i, ch in enumerate(fn):
                if ch == "<":
                    depth += 1
                elif ch == ">" and fn[i - 1] != "-":
                    depth -= 1
                    if depth == 0:
                        inner, rest = fn[1:i], fn[i + 1:]
                        # top-level " as "
                        d = 0
                        ty = inner
                        for j in range(len(inner)):
                            if inner[j] == "<":
                                d += 1
                            elif inner[j] == ">":
                                d -= 1
                            elif d == 0 and inner.startswith(" as ", j):
                                ty = inner[:j]
                                break
                        return (strip_generics(ty) + "::" + strip_generics(rest)).replace("::::", "::")
        return strip_generics(fn) or "?"

    fns = set()
    for p in props:
        sl = p.get("sourceLocation", {})
        f = sl.get("file", "")
        if (REPO + "/") in f:
            fns.add("%s::%s" % (f.split(REPO + "/")[-1], short(sl.get("function", "?"))))
    return sorted(fns)


# ----------------------------------------------------------------------------- replay
NATIVE_FEATURES = []


def build_native(release):
    td = os.path.join(BUILD, "native")
    cmd = ["cargo", "build", "--offline", "--target-dir", td, "--bin", "replay"]
    if NATIVE_FEATURES:
        cmd += ["--features", ",".join(NATIVE_FEATURES)]
    if release:
        cmd.append("--release")
    env = dict(BASE_ENV)
    env["RUSTFLAGS"] = "--cfg pest_typed_verif"
    rc, out = sh(cmd, env=env, cwd=HARNESS)
    if rc != 0:
        return None, out
    return os.path.join(td, "release" if release else "debug", "replay"), out


def playback_values(h, target_dir, extra, env, mem_kb, timeout_s):
    """Rerun one failing harness with concrete playback; return list of (check, values)."""
    cmd = [
        "cargo", "kani", "--target-dir", target_dir + "-pb", "-Z", "unstable-options", "-Z", "stubbing",
        "-Z", "concrete-playback", "--concrete-playback=print", "--exact", "--output-format", "terse",
        "--harness-timeout", "%ds" % timeout_s, "--harness", h["full"],
    ] + [x for x in extra]
    # the playback run is alone on the machine: give it room (trace generation needs more memory than the verdict)
    mem_kb = max(mem_kb, 28 * 1024 * 1024)
    shell = "ulimit -v %d; exec %s" % (mem_kb, " ".join("'%s'" % c for c in cmd))
    e = dict(BASE_ENV)
    e.update(env)
    rc, out = sh(["bash", "-c", shell], env=e, cwd=HARNESS)
    with open(os.path.join(BUILD, "playback-%s.log" % h["name"]), "w") as f:
        f.write(out)
    tests = []
    cover_vals = []
    for blk in re.split(r"Concrete playback unit test for", out)[1:]:
        chk = re.search(r'/// Check for `([^`]*)`: "(.*)"', blk)
        m = re.search(r"let concrete_vals: Vec<Vec<u8>> = vec!\[(.*?)\n\s*\];", blk, re.S)
        if not m:
            continue
        vals = []
        for vm in re.finditer(r"vec!\[([^\]]*)\]", m.group(1)):
            vals.append([int(x) for x in vm.group(1).split(",") if x.strip()])
        if chk and chk.group(1) == "cover":
            cover_vals.append(vals)
            continue  # a satisfied cover is a witness, not a counterexample
        tests.append((chk.group(2) if chk else "?", vals))
    if not tests and cover_vals and all(v == cover_vals[0] for v in cover_vals):
        # Kani prints one test per distinct value vector: a harness without (relevant) nondeterministic inputs
        # yields a single vector, labelled with whichever property came first. The native replay decides.
        m = re.findall(r"Failed Checks: (.*)", out)
        if m:
            tests.append((m[0].strip(), cover_vals[0]))
    return tests


def native_replay(binary, harness, vals):
    arg = ";".join(",".join(str(b) for b in v) for v in vals) or "-"
    try:
        rc, out = sh([binary, harness, arg], env={"RUST_BACKTRACE": "0"}, timeout=120)
    except subprocess.TimeoutExpired:
        return 1, "REPRODUCED: TIMEOUT native replay did not terminate within 120 s (non-termination)", ""
    last = [l for l in out.strip().splitlines() if l.strip()]
    return rc, (last[-1] if last else ""), out


def same_failure(check, native_last):
    """The native panic must be the assertion the solver violated (messages modulo quoting)."""
    norm = lambda x: re.sub(r"\s+", " ", (x or "").replace('"', "").replace("REPRODUCED:", "")).strip()
    a, b = norm(check), norm(native_last)
    if not a or not b:
        return False
    if a in b or b in a:
        return True
    # Kani reports overflow / bounds panics with its own wording
    if "unwinding assertion" in a and "TIMEOUT" in b:
        return True
    generic = ("attempt to", "overflow", "index out of bounds", "out of range", "unwrap", "slice index", "byte index",
               "is not a char boundary", "unreachable")
    return any(g in a for g in generic) or any(g in b for g in generic)


def write_replay(prop, h, check, vals, native, kind):
    os.makedirs(os.path.join(OUT, "replays"), exist_ok=True)
    key = hashlib.sha1(json.dumps([h["full"], vals]).encode()).hexdigest()[:10]
    path = os.path.join(OUT, "replays", "%s-%s-%s.json" % (prop, h["name"], key))
    json.dump(
        dict(property=prop, harness=h["full"], description=h["desc"], failed_check=check,
             kind=kind, values=vals, native=native,
             how="cd /verif && ./check %s --replay %s" % (prop, path)),
        open(path, "w"), indent=1,
    )
    return path


def do_replay_file(prop, path):
    r = json.load(open(path))
    ok = False
    for rel in (False, True):
        b, out = build_native(rel)
        if not b:
            log("native build failed:\n" + out[-2000:])
            return 2
        rc, last, full = native_replay(b, r["harness"], r["values"])
        log("[%s] %s" % ("release" if rel else "dev", last))
        ok = ok or rc == 1
    if ok:
        log("VIOLATION property=%s replay=%s" % (prop, path))
        return 1
    log("replay did not reproduce on the current tree")
    return 0


# ----------------------------------------------------------------------------- reference validation (Layer G oracle)
def validate_reference():
    """Native enumeration: generated reference evaluators vs the parser pest_derive generates (validates the ORACLE only)."""
    td = os.path.join(BUILD, "native")
    env = dict(BASE_ENV)
    env["RUSTFLAGS"] = "--cfg pest_typed_verif"
    rc, out = sh(["cargo", "build", "--offline", "--target-dir", td, "--bin", "refcheck"], env=env, cwd=HARNESS)
    if rc != 0:
        return False, [dict(error="refcheck build failed", log=out[-1500:])]
    rc, out = sh([os.path.join(td, "debug", "refcheck")], env={"RUST_BACKTRACE": "0"}, timeout=1200)
    rows = []
    for l in out.splitlines():
        if l.startswith("{"):
            try:
                rows.append(json.loads(l))
            except Exception:
                pass
    return rc == 0 and bool(rows), rows


# ----------------------------------------------------------------------------- known findings
def load_known():
    p = os.path.join(VERIF, "known_findings.json")
    if not os.path.exists(p):
        return {"findings": [], "fixed": []}
    return json.load(open(p))


# ----------------------------------------------------------------------------- main
def main(argv):
    if not argv or argv[0] in ("-h", "--help"):
        print(__doc__)
        return 2
    prop = argv[0]
    tier = os.environ.get("VERIF_TIER", "quick")
    only = None
    jobs = None
    replay = None
    validate_only = False
    i = 1
    while i < len(argv):
        if argv[i] == "--tier":
            tier = argv[i + 1]; i += 2
        elif argv[i] == "--only":
            only = argv[i + 1]; i += 2
        elif argv[i] == "--jobs":
            jobs = int(argv[i + 1]); i += 2
        elif argv[i] == "--replay":
            replay = argv[i + 1]; i += 2
        elif argv[i] == "--validate-ref":
            validate_only = True; i += 1
        else:
            print("unknown argument", argv[i]); return 2
    if prop not in PROPS:
        print("unknown property", prop); return 2
    try:
        seed = int(os.environ.get("VERIF_SEED", "0"))
    except ValueError:
        seed = 0
    os.makedirs(BUILD, exist_ok=True)
    lock = open(os.path.join(BUILD, "lock"), "w")
    fcntl.flock(lock, fcntl.LOCK_EX)
    if replay:
        return do_replay_file(prop, replay)
    if validate_only:
        ok, summary = validate_reference()
        for l in summary:
            log(json.dumps(l))
        return 0 if ok else 2
    return run_property(prop, tier, seed, only, jobs)


def run_property(prop, tier, seed, only, jobs_override):
    cfg = PROPS[prop]
    t_start = time.time()
    hs = select(prop, tier, only)
    if not hs:
        log("no harnesses selected for %s" % prop)
        return 2
    refval = None
    if any(h["module"].startswith("gen/") for h in hs) and not os.environ.get("PV_SKIP_REFCHECK"):
        ok, refval = validate_reference()
        log("reference-vs-pest validation: %s (%d grammars, %d strings, %d pest panics, %d mismatches)" % (
            "ok" if ok else "FAILED", len(refval), sum(r.get("strings", 0) for r in refval),
            sum(r.get("pest_panics", 0) for r in refval), sum(r.get("mismatches", 0) for r in refval)))
        if not ok:
            log("INCONCLUSIVE property=%s: the reference evaluator (oracle) disagrees with pest or could not be validated" % prop)
            for r in refval:
                if r.get("mismatches") or r.get("error"):
                    log("  - " + json.dumps(r)[:600])
            return 2
    known = load_known()
    known_by_h = {f["harness"]: f for f in known.get("findings", [])
                  if f.get("property") == prop or prop in f.get("also_properties", [])}
    tcfg = cfg.get(tier, {})
    jobs = jobs_override or tcfg.get("jobs", 8)
    timeout_s = tcfg.get("timeout_s", 900 if tier == "quick" else 3600)
    mem_kb = tcfg.get("mem_gb", 12 if tier == "quick" else 30) * 1024 * 1024
    extra = list(cfg.get("kani_args", ["--no-assertion-reach-checks"]))
    if "--features" in extra:
        NATIVE_FEATURES[:] = extra[extra.index("--features") + 1].split(",")
    variants = cfg.get("variants", [dict(name="default", env={}, target="kani")])
    all_recs = []
    cmds = []
    inconclusive = []
    violations = []
    known_lines = []
    for var in variants:
        vh = [h for h in hs if not var.get("patterns") or any(re.search(p, h["name"]) for p in var["patterns"])]
        if not vh:
            continue
        target_dir = os.path.join(BUILD, var["target"])
        label = "%s-%s" % (prop, var["name"])
        log("== %s [%s] tier=%s: %d harnesses, -j %d, cap %ds / %d GB each" % (
            prop, var["name"], tier, len(vh), jobs, timeout_s, mem_kb // 1048576))
        rc, out, data, wall, cmd = run_kani(vh, target_dir, jobs, timeout_s, mem_kb, extra, var["env"], label)
        cmds.append(cmd)
        if data is None and "error: could not compile" in out or "Failed to execute cargo" in out:
            log("BUILD FAILED (harness crate does not compile against /repo's current tree):")
            errs = [l for l in out.splitlines() if l.startswith("error")]
            log("\n".join(errs[:20]))
            # compiling is part of the claim only for the modules named in build_failure_scope (C16 getter shapes,
            # C20 recursive grammars): an error located elsewhere (e.g. a renamed private function a stub refers to)
            # is a broken harness, not a violation
            scope = cfg.get("build_failure_scope", [])
            ol = out.splitlines()
            located = []
            for i, l in enumerate(ol):
                if l.startswith("error"):
                    located += [x for x in ol[i + 1:i + 4] if x.strip().startswith("-->")]
            in_scope = bool(located) and all(any(sc in l for sc in scope) for l in located)
            if cfg.get("build_failure_is_violation") and in_scope:
                os.makedirs(os.path.join(OUT, "replays"), exist_ok=True)
                path = os.path.join(OUT, "replays", "%s-build-failure.log" % prop)
                open(path, "w").write(out)
                violations.append(("build", path))
                log("VIOLATION property=%s replay=%s" % (prop, path))
            else:
                inconclusive.append("build failed")
            continue
        recs = collect(vh, out, data)
        with ThreadPoolExecutor(max_workers=8) as ex:
            fl = list(ex.map(functions_encoded, [recs[h["full"]] for h in vh]))
        for h, fns in zip(vh, fl):
            r = recs[h["full"]]
            r["variant"] = var["name"]
            r["functions_encoded"] = fns
            all_recs.append(r)
            st = r["status"]
            log("  %-44s %-8s %6s checks, covers %s/%s, %6.1fs  %s" % (
                h["name"], st, r["total"], r["covers_sat"],
                (r["covers_sat"] or 0) + (r["covers_unsat"] or 0),
                r["verification_time_s"] or -1, "; ".join(r["failed_checks"][:2])[:100]))
            if h["tier"] == "W":
                if st != "fail":
                    inconclusive.append("%s: reachability witness did not fail (%s)" % (h["name"], st))
                continue
            if h["tier"] == "K":
                kf = known_by_h.get(h["name"])
                if st == "fail":
                    if kf:
                        known_lines.append("KNOWN-FINDING: property=%s %s [%s]" % (prop, kf["what"], kf["id"]))
                        r["known_finding"] = kf["id"]
                    else:
                        # an unlisted twin failing is an ordinary violation
                        handle_failure(prop, h, r, target_dir, extra, var["env"], mem_kb, timeout_s, violations, inconclusive, cfg)
                elif st == "pass":
                    r["known_finding_gone"] = True
                else:
                    inconclusive.append("%s: %s" % (h["name"], st))
                continue
            if st == "pass":
                continue
            if st == "fail":
                handle_failure(prop, h, r, target_dir, extra, var["env"], mem_kb, timeout_s, violations, inconclusive, cfg)
            else:
                why = st
                if st == "unwind":
                    why = "unwinding assertion failed: a loop ran past the stated bound (bound too small or termination lost): " + "; ".join(r["failed_checks"][:2])
                    if cfg.get("unwind_is_violation"):
                        handle_failure(prop, h, r, target_dir, extra, var["env"], mem_kb, timeout_s, violations, inconclusive, cfg)
                        continue
                elif st == "error":
                    why = "no verdict (timeout, out of memory or CBMC error): exit_status=%s" % r["exit_status"]
                inconclusive.append("%s: %s" % (h["name"], why))
    wall = time.time() - t_start
    write_evidence(prop, tier, seed, cfg, all_recs, cmds, wall, violations, known_lines, inconclusive, refval, partial=bool(only))
    for l in known_lines:
        log(l)
    if violations:
        return 1
    if inconclusive:
        log("INCONCLUSIVE property=%s:" % prop)
        for x in inconclusive:
            log("  - " + x)
        return 2
    log("OK property=%s tier=%s harnesses=%d wall=%.0fs" % (prop, tier, len(all_recs), wall))
    return 0


MEMSAFE = re.compile(r"dereference failure|pointer|out of bounds|invalid|misaligned|memcpy|memmove|deallocat|free|Offset")


def handle_failure(prop, h, r, target_dir, extra, env, mem_kb, timeout_s, violations, inconclusive, cfg):
    if violations and not os.environ.get("PV_REPLAY_ALL"):
        # one reproduced counterexample decides the run; further failing harnesses are listed, not replayed
        r["not_replayed"] = "a violation of this property is already reported by this run"
        log("  -> %s FAILED: %s (not replayed: a violation is already reported)" % (h["name"], "; ".join(r["failed_checks"][:2])))
        return
    log("  -> %s FAILED: %s; extracting a counterexample" % (h["name"], "; ".join(r["failed_checks"][:3])))
    tests = playback_values(h, target_dir, extra, env, mem_kb, timeout_s)
    r["counterexamples"] = [dict(check=c, values=v) for c, v in tests[:3]]
    if not tests:
        inconclusive.append("%s: failed (%s) but no concrete values could be extracted" % (h["name"], "; ".join(r["failed_checks"][:2])))
        return
    bins = {}
    for rel in (False, True):
        b, out = build_native(rel)
        if not b:
            inconclusive.append("%s: native replay build failed" % h["name"])
            log(out[-1500:])
            return
        bins["release" if rel else "dev"] = b
    other_panic = None
    for check, vals in tests:
        native = {}
        repro = False
        for prof, b in bins.items():
            rc, last, _ = native_replay(b, h["full"], vals)
            native[prof] = last
            if rc == 1:
                if same_failure(check, last):
                    repro = True
                else:
                    other_panic = (check, last)
        log("     check=%r values=%s -> %s" % (check, vals, native))
        if repro:
            path = write_replay(prop, h, check, vals, native, "reproduced")
            r["replay"] = path
            violations.append((h["name"], path))
            log("VIOLATION property=%s replay=%s" % (prop, path))
            return
    # nothing reproduced natively
    check, vals = tests[0]
    if other_panic:
        inconclusive.append("%s: solver counterexample for %r panics natively with a different message (%r); "
                            "stub/model and real dependency differ here" % (h["name"], other_panic[0], other_panic[1]))
        return
    if cfg.get("ub_model_only_is_violation") and all(MEMSAFE.search(c or "") for c, _ in tests):
        path = write_replay(prop, h, check, vals, {}, "model-only (undefined-behaviour class; cannot panic natively)")
        r["replay"] = path
        violations.append((h["name"], path))
        log("VIOLATION property=%s replay=%s" % (prop, path))
        return
    inconclusive.append("%s: counterexample for %r did not reproduce natively (harness/stub suspect)" % (h["name"], check))


def write_evidence(prop, tier, seed, cfg, recs, cmds, wall, violations, known_lines, inconclusive, refval=None, partial=False):
    # a partial (--only) development run never overwrites the property's evidence file
    out_dir = os.path.join(BUILD if partial else OUT, "evidence")
    os.makedirs(out_dir, exist_ok=True)
    decided = [r for r in recs if r["status"] in ("pass", "fail")]
    nontrivial = [r for r in recs if r["status"] == "pass" and r["tier"] in ("Q", "T") and (r["covers_sat"] or 0) >= 1 and not r["covers_unsat"]]
    obligations = sum((r["total"] or 0) for r in recs if r["tier"] in ("Q", "T"))
    discharged = sum((r["passed"] or 0) + (r["covers_sat"] or 0) for r in recs if r["tier"] in ("Q", "T") and r["status"] == "pass")
    evaluations = sum((r["total"] or 0) for r in decided)
    fns = sorted({f for r in recs for f in r.get("functions_encoded", [])})
    stubsets = sorted({s for r in recs for s in r["stubs"]})
    samples = []
    for r in recs[:400]:
        samples.append({k: r.get(k) for k in (
            "harness", "variant", "tier", "desc", "stubs", "unwind", "status", "total", "passed", "failed",
            "covers_sat", "covers_unsat", "verification_time_s", "symex_s", "solver_s", "vccs",
            "failed_checks", "counterexamples", "replay", "known_finding") if r.get(k) not in (None, [], "")})
    ev = dict(
        property_id=prop,
        tier=tier,
        seed=seed,
        level=cfg.get("level", "model_checking"),
        coverage=dict(
            evaluations=evaluations,
            distinct_nontrivial=len(nontrivial),
            rule="one case = one CBMC property (assertion, overflow/bounds/pointer check, unwinding assertion, cover) of one "
                 "harness instantiation, decided by the SAT solver for every input within the harness bound; "
                 "distinct_nontrivial = harness instantiations that were decided, passed, and had every kani::cover "
                 "vacuity witness satisfied (incl. 'end of harness reached')",
            samples=samples,
            obligations=obligations,
            discharged=discharged,
            checker_cmd=" ; ".join(cmds),
            trusted_base=["Kani 0.68.0 (MIR->GOTO translation)", "CBMC 6.11.0", "CaDiCaL", "rustc (Kani's pinned nightly)"]
                         + ["stub set %s: %s" % (s, STUB_SETS.get(s, "?")) for s in stubsets]
                         + cfg.get("trusted", []),
            explanation=cfg.get("explanation", ""),
            exhaustive=False,
            functions_encoded=fns,
            bounds=cfg.get("bounds", ""),
            outside_claim=cfg.get("outside", ""),
            harnesses_total=len(recs),
            harnesses_passed=len([r for r in recs if r["status"] == "pass"]),
            solver_time_s=round(sum((r["verification_time_s"] or 0) for r in recs), 1),
            inconclusive=inconclusive,
            known_findings=known_lines,
            reference_validation_against_pest=refval,
        ),
        assumptions=cfg.get("assumptions", []) + ["stub set %s: %s" % (s, STUB_SETS.get(s, "?")) for s in stubsets],
        wall_s=round(wall, 1),
        violations=len(violations),
    )
    json.dump(ev, open(os.path.join(out_dir, "%s.json" % prop), "w"), indent=1)
