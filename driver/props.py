"""Per-property configuration of the checks (harness modules, tiers, claim text)."""

STUB_SETS = {
    "T2": "Tracker::record_during_with reduced to running its closure (drops the tracker's rule stack Vec; only feeds error reports)",
    "T0": "Tracker::{record,empty_stack,out_of_bound,repeat_too_many_times} replaced by no-ops (error bookkeeping "
          "never feeds back into matching; non-interference discharged by c10_noninterf_*)",
    "T1": "Tracker::{get_entry,clear} replaced by one static slot of fixed arrays (BTreeMap cut)",
    "S": "pest::Stack::{push,pop,peek,len,snapshot,clear_snapshot,restore} replaced by a fixed-capacity copy-on-snapshot "
         "array model (capacity 6, snapshot depth 6; exceeding either is assumed away); conformance of the real "
         "pest::Stack is checked by c05_s_*",
    "F": "alloc::fmt::format replaced by a function returning an empty String",
}

DEFAULT_VARIANT = [dict(name="default", env={}, target="kani")]

PROPS = {
    "C18": dict(
        modules=["c18"],
        quick=dict(jobs=14, timeout_s=900, mem_gb=8),
        thorough=dict(jobs=12, timeout_s=3600, mem_gb=16),
        bounds="", outside="", explanation="", assumptions=[], claim="wip", note="wip",
    ),
    "C17": dict(
        modules=["c17"],
        quick=dict(jobs=14, timeout_s=900, mem_gb=8),
        thorough=dict(jobs=12, timeout_s=3600, mem_gb=16),
        bounds="", outside="", explanation="", assumptions=[], claim="wip", note="wip",
    ),
    "C04": dict(
        modules=["c04"],
        quick=dict(jobs=14, timeout_s=900, mem_gb=10),
        thorough=dict(jobs=12, timeout_s=3600, mem_gb=16),
        bounds="", outside="", explanation="", assumptions=[], claim="wip", note="wip",
    ),
    "C10": dict(
        modules=["c10"],
        quick=dict(jobs=14, timeout_s=900, mem_gb=10),
        thorough=dict(jobs=12, timeout_s=3600, mem_gb=16),
        bounds="", outside="", explanation="", assumptions=[], claim="wip", note="wip",
    ),
    "C19": dict(
        modules=["c19"],
        quick=dict(jobs=14, timeout_s=900, mem_gb=8),
        thorough=dict(jobs=12, timeout_s=3600, mem_gb=16),
        bounds="", outside="", explanation="", assumptions=[], claim="wip", note="wip",
    ),
    "C05": dict(
        modules=["c05"],
        quick=dict(jobs=14, timeout_s=900, mem_gb=8),
        thorough=dict(jobs=12, timeout_s=3600, mem_gb=16),
        bounds="", outside="", explanation="", assumptions=[], claim="wip", note="wip",
    ),
    "G": dict(
        modules=["gen/*"],
        quick=dict(jobs=14, timeout_s=1200, mem_gb=10),
        thorough=dict(jobs=10, timeout_s=3600, mem_gb=24),
        bounds="", outside="", explanation="dev: all generated harnesses", assumptions=[], claim="dev", note="dev",
    ),
    "C01": dict(
        modules=["c01"],
        quick=dict(jobs=14, timeout_s=900, mem_gb=8),
        thorough=dict(jobs=12, timeout_s=3600, mem_gb=16),
        bounds="", outside="", explanation="", assumptions=[], claim="wip", note="wip",
    ),
    "C03": dict(
        modules=["c03"],
        quick=dict(jobs=14, timeout_s=900, mem_gb=8),
        thorough=dict(jobs=12, timeout_s=3600, mem_gb=16),
        bounds="", outside="", explanation="", assumptions=[], claim="wip", note="wip",
    ),
    "C08": dict(
        modules=["c08"],
        quick=dict(jobs=14, timeout_s=900, mem_gb=8),
        thorough=dict(jobs=12, timeout_s=3600, mem_gb=16),
        bounds="every valid UTF-8 string of exactly 4 (quick) / 5 (thorough) bytes; every a <= b accepted by Span::new / Position::new",
        outside="strings longer than the byte bound; needles and literals other than the instantiated ones",
        explanation="Relational bounded model checking: each leaf node run on Span(s,a,b)/Position(s,a) and on a standalone copy of the slice.",
        assumptions=["input bytes form valid UTF-8"],
        claim="For every string and sub-range within the bound every terminal matcher gives on the sub-input exactly the result "
              "(verdict, offset shifted by a, content) it gives on a fresh copy of the slice; nothing at or beyond b is read.",
        note="Trusts Kani/CBMC/CaDiCaL. Leaf level uses no stubs.",
    ),
    "C06": dict(
        modules=["c06", "c06t"],
        quick=dict(jobs=14, timeout_s=900, mem_gb=8),
        thorough=dict(jobs=14, timeout_s=3600, mem_gb=16),
        bounds="constrain_idxs: all i32 start/end, len <= 65536; nodes: stack depth 0..4 (quick: 0,2,3), slice bounds -3..3 at depth 2 "
               "(quick) / -6..6 at depths 0..4 (thorough), text of 5 bytes over {a,b} with entries of 1-2 bytes, every cursor position",
        outside="stack depth > 4; entry texts other than the fixed 1-2 byte layout; stack built-ins under enclosing snapshots (C05)",
        explanation="Bounded model checking of PEEK/POP/DROP/PEEK_ALL/POP_ALL/PeekSlice1/2/Push on the real pest::Stack against a list model.",
        assumptions=["the text is ASCII over {a,b} (entries are compared as byte strings)"],
        claim="For every text and cursor within the bound the stack built-ins accept/consume exactly what the list model says, "
              "leave the stack as specified, and fail (never panic) on empty stack / out-of-range slices; index normalisation "
              "is proved for all i32.",
        note="Trusts Kani/CBMC/CaDiCaL; stub set T0 (tracker bookkeeping no-ops).",
    ),
    "C12": dict(
        modules=["c12"],
        quick=dict(jobs=12, timeout_s=900, mem_gb=10),
        thorough=dict(jobs=8, timeout_s=5400, mem_gb=30),
        bounds="line_col: every valid UTF-8 string of exactly 0..5 bytes (quick) / ..7 bytes plus 3-character strings over six "
               "character kinds (thorough), every usize offset; line_of: every string of 2..3 (quick) / 4 (thorough) bytes over {LF,CR,'a'}",
        outside="strings longer than the stated byte bounds (the property's 7 *characters* = up to 28 bytes is not reached); long random texts",
        explanation="Bounded model checking (Kani/CBMC) of the compiled Position::line_col/line_of against pest::Position "
                    "(also compiled real code) on symbolic strings and offsets.",
        assumptions=["input bytes form valid UTF-8"],
        claim="For every valid UTF-8 string within the byte bound and every offset, Position::new accepts exactly the char "
              "boundaries and line_col/line_of return what pest::Position returns (line_of: the identical sub-slice).",
        note="Trusts Kani's MIR->GOTO translation, CBMC and CaDiCaL; bounded by input length; pest 2.7.14 is the oracle.",
    ),
    "C13": dict(
        modules=["c13"],
        quick=dict(jobs=8, timeout_s=600, mem_gb=10),
        thorough=dict(jobs=8, timeout_s=3600, mem_gb=24),
        bounds="arbitrary valid UTF-8 strings of exactly L bytes (L per harness, <= 4/5); unconstrained usize offsets",
        outside="strings longer than the per-harness byte bound; lines()/lines_span() beyond 2 bytes",
        explanation="Bounded model checking (Kani/CBMC) of the compiled Span code against pest::Span as oracle.",
        assumptions=["input bytes are assumed to form valid UTF-8 (core::str::from_utf8 succeeds)"],
        claim="For every valid UTF-8 string within the byte bound and every (unconstrained) offset pair, the real Span "
              "code returns what pest::Span returns; decided by CBMC over the compiled code, not sampled.",
        note="Trusts Kani's MIR->GOTO translation, CBMC and CaDiCaL; bounded by input length; pest 2.7.14's Span is the oracle.",
    ),
}

HOOK_COMMITS = ["926f6b0"]

NOT_APPLICABLE = {
    "C14": "Display of Span/Position is core::fmt machinery end to end; symbolic execution of formatter.rs does not "
           "finish even for a 1-byte input with alloc::fmt::format stubbed (>900 s), and the locating logic cannot be "
           "driven apart from the rendering (FormatOption is not nameable outside the crate). No bound exists at which "
           "the solver returns; see DESIGN.md §C14.",
}
