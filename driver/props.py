"""Per-property configuration of the checks (harness modules, tiers, claim text)."""

STUB_SETS = {
    "T0": "Tracker::{record,empty_stack,out_of_bound,repeat_too_many_times} replaced by no-ops (error bookkeeping "
          "never feeds back into matching; non-interference discharged by c10_noninterf_*)",
    "T1": "Tracker::{get_entry,clear} replaced by one static slot of fixed arrays (BTreeMap cut)",
    "S": "pest::Stack::{push,pop,peek,len,snapshot,clear_snapshot,restore} replaced by a fixed-capacity copy-on-snapshot "
         "array model (capacity 6, snapshot depth 6; exceeding either is assumed away); conformance of the real "
         "pest::Stack is checked by c05_s_*",
    "F": "alloc::fmt::format replaced by a function returning an empty String",
}

DEFAULT_VARIANT = [dict(name="default", env={}, target="kani")]

PROPS = {
    "C13": dict(
        modules=["c13"],
        quick=dict(jobs=8, timeout_s=600, mem_gb=10),
        thorough=dict(jobs=8, timeout_s=3600, mem_gb=24),
        bounds="arbitrary valid UTF-8 strings of exactly L bytes (L per harness, <= 4/5); unconstrained usize offsets",
        outside="strings longer than the per-harness byte bound; lines()/lines_span() beyond 2 bytes",
        explanation="Bounded model checking (Kani/CBMC) of the compiled Span code against pest::Span as oracle.",
        assumptions=["input bytes are assumed to form valid UTF-8 (core::str::from_utf8 succeeds)"],
        claim="For every valid UTF-8 string within the byte bound and every (unconstrained) offset pair, the real Span "
              "code returns what pest::Span returns; decided by CBMC over the compiled code, not sampled.",
        note="Trusts Kani's MIR->GOTO translation, CBMC and CaDiCaL; bounded by input length; pest 2.7.14's Span is the oracle.",
    ),
}

HOOK_COMMITS = ["926f6b0"]

NOT_APPLICABLE = {
    "C14": "Display of Span/Position is core::fmt machinery end to end; symbolic execution of formatter.rs does not "
           "finish even for a 1-byte input with alloc::fmt::format stubbed (>900 s), and the locating logic cannot be "
           "driven apart from the rendering (FormatOption is not nameable outside the crate). No bound exists at which "
           "the solver returns; see DESIGN.md §C14.",
}
