#!/usr/bin/env python3
"""Regenerate /verif/MANIFEST.json from driver/props.py (single source of truth)."""
import json, os, sys
sys.path.insert(0, os.path.dirname(os.path.abspath(__file__)))
from props import PROPS, NOT_APPLICABLE, HOOK_COMMITS

ALL = ["C%02d" % i for i in range(1, 21)]
checks = []
for pid in ALL:
    if pid not in PROPS:
        continue
    c = PROPS[pid]
    checks.append(dict(
        property_id=pid,
        quick_cmd="./check %s --tier quick" % pid,
        thorough_cmd="./check %s --tier thorough" % pid,
        evidence_file="evidence/%s.json" % pid,
        replay_cmd_template="./check %s --replay {path}" % pid,
        engine="kani-cbmc",
        level_claimed=dict(
            category=c.get("level", "model_checking"),
            text=c["claim"],
            design_ref="DESIGN.md §2 %s" % pid,
        ),
        level_note=c["note"],
        technique=c.get("technique", "bounded model checking of the compiled real code (Kani 0.68 / CBMC 6.11, CaDiCaL) over symbolic inputs"),
    ))
na = [dict(property_id=p, reason=r) for p, r in NOT_APPLICABLE.items()]
for pid in ALL:
    if pid not in PROPS and pid not in NOT_APPLICABLE:
        na.append(dict(property_id=pid, reason="check not built yet in this revision (work in progress)"))
m = dict(
    version=1,
    setup_cmd="./setup.sh",
    hooks=dict(
        guard="pest_typed_verif",
        enable="cfg(any(kani, pest_typed_verif)): Kani sets cfg(kani) itself; native replay builds use RUSTFLAGS='--cfg pest_typed_verif'",
        baseline_off_cmd="cd /repo && cargo test --workspace --no-fail-fast --offline",
        source_commits=HOOK_COMMITS,
        add_only=True,
    ),
    engines=[dict(name="kani-cbmc", path="/verif/check",
                  serves_properties=[c["property_id"] for c in checks],
                  kind_free_text="Kani 0.68 proof harnesses (harness/src/*.rs, path-dependent on /repo) decided by CBMC 6.11 + CaDiCaL; driver/pvdriver.py orchestrates, replays counterexamples natively, writes evidence")],
    checks=checks,
    notes="All checks are solver-based (bounded model checking of the real compiled code). Exit 2 = inconclusive (timeout/OOM/vacuous/"
          "non-reproducing/internal error), never reported as success. Genuine defects: fix: commits b3006e2 (C08) and 97565eb (C07/C01/C02) in "
          "/repo; known findings KF-C05-1, KF-C20-1 and KF-C07-1 in known_findings.json (K-tier twin harnesses print KNOWN-FINDING). Seeded changes and "
          "which checks catch them: seeded/*/meta.json and DESIGN.md section 6. See DESIGN.md.",
    not_applicable=na,
)
json.dump(m, open(os.path.join(os.path.dirname(os.path.dirname(os.path.abspath(__file__))), "MANIFEST.json"), "w"), indent=1)
print("MANIFEST.json: %d checks, %d not_applicable" % (len(checks), len(na)))
