//! C05 — a failed alternative, optional, iteration or lookahead leaves no trace.
//! C05-U: pest-typed's use of the snapshot API, on the stubbed stack model (S), abstract children that
//!        push/pop, against the by-value reference (full backtracking by construction).
//! C05-S: does the real `pest::Stack` honour that model? (no stubs)
use crate::c03::{abs3, abs3nf, abs3z, Nk, RSk, Sk, FREE, PROG, PROG1};
use crate::common::*;
use crate::nd;
use crate::refpeg::*;
use crate::rel::*;
use pest_typed::choices::*;
use pest_typed::predefined_node::*;
use pest_typed::sequence::*;
use pest_typed::tracker::Tracker;
use pest_typed::{AsInput, Position, Stack, TypedNode};

/// pop, push, then a pure child that may fail: the net stack length is unchanged when the attempt fails
pub type PopPushX = Seq3<Nk<Abs<0, 2>>, Nk<Abs<1, 1>>, Nk<Abs<2, 0>>>;
pub type RPopPushX = RSeq3<RSk, 0, RAbs<0, 2>, RAbs<1, 1>, RAbs<2, 0>>;
/// push, push, fail?
pub type PushPushX = Seq3<Nk<Abs<0, 1>>, Nk<Abs<1, 1>>, Nk<Abs<2, 0>>>;
pub type RPushPushX = RSeq3<RSk, 0, RAbs<0, 1>, RAbs<1, 1>, RAbs<2, 0>>;
/// pop, pop, fail?
pub type PopPopX = Seq3<Nk<Abs<0, 2>>, Nk<Abs<1, 2>>, Nk<Abs<2, 0>>>;
pub type RPopPopX = RSeq3<RSk, 0, RAbs<0, 2>, RAbs<1, 2>, RAbs<2, 0>>;

/// Predicates (and a choice all of whose alternatives fail) give the stack back whatever the verdict.
fn always_restores<'i, T: TypedNode<'i, R>>(d0: usize)
where
    'static: 'i,
{
    abs_init(3, FREE);
    let p0 = nd::usize();
    nd::assume(p0 <= 3);
    let inp = Position::new(XXX, p0).unwrap();
    let mut tracker = Tracker::<R>::new(XXX.as_input());
    let mut st = fresh_stack(XXX, d0);
    let before = contents(&st);
    let c = T::try_check_partial_with(inp, &mut st, &mut tracker);
    let after_c = contents(&st);
    assert!(same_contents(&before, &after_c), "stack changed by a predicate / failed choice (check path)");
    let mut st2 = fresh_stack(XXX, d0);
    let p = T::try_parse_partial_with(inp, &mut st2, &mut tracker);
    let after_p = contents(&st2);
    assert!(same_contents(&before, &after_p), "stack changed by a predicate / failed choice (parse path)");
    assert!(after_c.open_snapshots == 0 && after_p.open_snapshots == 0, "snapshot left open");
    cover!(c.is_some(), "accepted");
    cover!(c.is_none(), "rejected");
    assert!(c.is_some() == p.is_some());
    core::mem::forget(st);
    core::mem::forget(st2);
    core::mem::forget(tracker);
}
/// A choice whose alternatives all fail leaves the stack as it found it.
fn failed_choice_restores<'i, T: TypedNode<'i, R>>(d0: usize)
where
    'static: 'i,
{
    abs_init(3, FREE);
    let p0 = nd::usize();
    nd::assume(p0 <= 3);
    let inp = Position::new(XXX, p0).unwrap();
    let mut tracker = Tracker::<R>::new(XXX.as_input());
    let mut st = fresh_stack(XXX, d0);
    let before = contents(&st);
    let c = T::try_check_partial_with(inp, &mut st, &mut tracker);
    let after = contents(&st);
    cover!(c.is_none(), "all alternatives failed");
    if c.is_none() {
        assert!(same_contents(&before, &after), "failed choice left a trace on the stack");
    }
    core::mem::forget(st);
    core::mem::forget(tracker);
}

// ------------------------------------------------------------------ C05-S: real pest::Stack vs the model
const SCAP: usize = 5;
const SDEPTH: usize = 3;
#[derive(Clone, Copy)]
struct M {
    data: [u8; SCAP],
    len: usize,
    snap: [([u8; SCAP], usize); SDEPTH],
    ns: usize,
}
/// Symbolic well-nested schedule of K operations on the real `pest::Stack<u8>` and on the by-value
/// copy-on-snapshot model. `known_event_only`: false = the main harness (the one characterised pest defect
/// assumed away), true = the twin that asserts conformance exactly on schedules containing that event.
fn stack_conformance<const PRE: usize, const K: usize>(known_event_only: bool, outer: bool) {
    let mut real: Stack<u8> = Stack::new();
    let mut m = M { data: [0; SCAP], len: 0, snap: [([0; SCAP], 0); SDEPTH], ns: 0 };
    // popped_below[l]: while snapshot l was the innermost, an element older than it was popped
    let mut popped_below = [false; SDEPTH];
    let mut event = false;
    // PRE elements are on the stack before the symbolic schedule starts
    let mut i = 0;
    while i < PRE {
        let v = nd::u8();
        real.push(v);
        m.data[m.len] = v;
        m.len += 1;
        i += 1;
    }
    // warm-up (concrete): make the stack's three internal vectors allocate now, so that the symbolic
    // schedule below runs without allocation paths: push, snapshot, pop, restore, pop = a no-op overall
    real.push(0);
    real.snapshot();
    let _ = real.pop();
    real.restore();
    let _ = real.pop();
    if outer {
        // concrete skeleton: an outer snapshot around the symbolic segment, closed by restore at the end
        real.snapshot();
        m.snap[m.ns] = (m.data, m.len);
        popped_below[m.ns] = false;
        m.ns += 1;
    }
    let mut k = 0;
    while k < K {
        let op = nd::u8();
        nd::assume(op < 5);
        match op {
            0 => {
                let v = nd::u8();
                nd::assume(m.len < SCAP);
                real.push(v);
                m.data[m.len] = v;
                m.len += 1;
            }
            1 => {
                let a = real.pop();
                let b = if m.len > 0 { m.len -= 1; Some(m.data[m.len]) } else { None };
                assert!(a == b, "pop returns a different element");
                if m.ns > 0 && m.len < m.snap[m.ns - 1].1 {
                    popped_below[m.ns - 1] = true;
                }
            }
            2 => {
                nd::assume(m.ns < SDEPTH);
                real.snapshot();
                m.snap[m.ns] = (m.data, m.len);
                popped_below[m.ns] = false;
                m.ns += 1;
            }
            3 => {
                nd::assume(m.ns > 0);
                // the characterised pest 2.7.14 defect: clearing an inner snapshot during which an element
                // older than it was popped, while an outer snapshot is still open, loses that element for
                // the outer restore (stack.rs::clear_snapshot drops the record)
                let is_event = popped_below[m.ns - 1] && m.ns >= 2;
                if known_event_only {
                    if is_event { event = true; }
                } else {
                    nd::assume(!is_event);
                }
                real.clear_snapshot();
                m.ns -= 1;
                if m.ns > 0 && m.len < m.snap[m.ns - 1].1 {
                    popped_below[m.ns - 1] = true;
                }
            }
            _ => {
                nd::assume(m.ns > 0);
                real.restore();
                m.ns -= 1;
                m.data = m.snap[m.ns].0;
                m.len = m.snap[m.ns].1;
            }
        }
        if !known_event_only || event {
            assert!(real.len() == m.len, "length differs from the backtracking model");
            let top = real.peek().copied();
            let mt = if m.len > 0 { Some(m.data[m.len - 1]) } else { None };
            assert!(top == mt, "top element differs from the backtracking model");
            let all = &real[0..real.len()];
            let mut i = 0;
            while i < SCAP {
                if i < m.len && i < all.len() {
                    assert!(all[i] == m.data[i], "contents differ from the backtracking model");
                }
                i += 1;
            }
        }
        k += 1;
    }
    if outer {
        // close whatever is still open, innermost first, by restore; compare after each
        let mut j = 0;
        while j < SDEPTH {
            if m.ns > 0 {
                real.restore();
                m.ns -= 1;
                m.data = m.snap[m.ns].0;
                m.len = m.snap[m.ns].1;
                if !known_event_only || event {
                    assert!(real.len() == m.len, "length differs from the backtracking model after the closing restore");
                    let all = &real[0..real.len()];
                    let mut i = 0;
                    while i < SCAP {
                        if i < m.len && i < all.len() {
                            assert!(all[i] == m.data[i], "contents differ from the backtracking model after the closing restore");
                        }
                        i += 1;
                    }
                }
            }
            j += 1;
        }
    }
    cover!(m.ns == 0 && m.len > 0, "schedule ended with all snapshots closed and a non-empty stack");
    cover!(!known_event_only || event, "the characterised event occurred");
    core::mem::forget(real);
}

/// The characterised schedule of KF-C05-1, concrete operations, symbolic element value.
fn known_nested_clear() {
    let v = nd::u8();
    let mut real: Stack<u8> = Stack::new();
    real.push(v);
    real.snapshot(); // outer attempt (e.g. an alternative of a choice)
    real.snapshot(); // inner attempt (e.g. an optional inside it)
    let p = real.pop(); // the inner attempt pops an element older than both snapshots
    assert!(p == Some(v));
    real.clear_snapshot(); // the inner attempt succeeds
    real.restore(); // the outer attempt fails: everything must be as before it started
    cover!(true, "schedule executed");
    assert!(real.len() == 1, "element popped inside a cleared inner snapshot is not restored by the outer restore");
    assert!(real.peek().copied() == Some(v), "restored element differs");
    core::mem::forget(real);
}

harnesses! {
    // ---- C05-U (i): failed attempts with mixed stack effects, abstract children, vs the by-value reference
    #[kani::unwind(5)] fn c05_choice_poppush() [T0 S] : "Q|Choice2<Seq3<pop,push,x>, depth-reader>: a failed first alternative that popped and pushed leaves no trace; depth 2" {
        abs3::<Choice2<PopPushX, Abs<1, 3>>, RChoice2<RPopPushX, RAbs<1, 3>>>(FREE, 2) }
    #[kani::unwind(5)] fn c05_choice3_mixed() [T0 S] : "Q|Choice3<Seq3<push,push,x>, Seq3<pop,pop,x>, pop>; depth 2" {
        abs3::<Choice3<PushPushX, PopPopX, Abs<2, 2>>, RChoice3<RPushPushX, RPopPopX, RAbs<2, 2>>>(FREE, 2) }
    #[kani::unwind(5)] fn c05_option_then_pop() [T0 S] : "Q|Seq2<Option<Seq3<pop,push,x>>, pop>: the entry the optional body replaced is back for the following POP; depth 1" {
        abs3::<Seq2<Nk<Option<PopPushX>>, Nk<Abs<2, 2>>>, RSeq2<RSk, 0, ROpt<RPopPushX>, RAbs<2, 2>>>(FREE, 1) }
    #[kani::unwind(5)] fn c05_option_poppop() [T0 S] : "Q|Option<Seq3<pop,pop,x>>; depth 2" {
        abs3nf::<Option<PopPopX>, ROpt<RPopPopX>>(FREE, 2) }
    #[kani::unwind(5)] fn c05_rep_poppush_skip() [T0 S] : "Q|Rep<Seq3<pop,push,x>> with skip: a failed iteration gives back skip, pop and push; depth 1" {
        abs3nf::<RepMin<PopPushX, AbsSkip<3>, 1, 0>, RRep<RSk, 1, RPopPushX, 0, { usize::MAX }>>(PROG1, 1) }
    #[kani::unwind(5)] fn c05_repminmax_pushpush() [T0 S] : "Q|RepMinMax<Seq3<push,push,x>,0,2>; depth 0" {
        abs3nf::<RepMinMax<PushPushX, AbsSkip<3>, 0, 0, 2>, RRep<RSk, 0, RPushPushX, 0, 2>>(FREE, 0) }
    #[kani::unwind(5)] fn c05_atomic_repeat_poppush() [T0 S] : "Q|AtomicRepeat<Seq3<pop,push,x>>; depth 1" {
        abs3nf::<AtomicRepeat<PopPushX>, RRep<REmpty, 0, RPopPushX, 0, { usize::MAX }>>(PROG1, 1) }
    #[kani::unwind(5)] fn c05_pos_in_seq() [T0 S] : "Q|Seq3<&Seq3<pop,push,x>, depth-reader, pop>: a successful lookahead leaves the stack untouched; depth 2" {
        abs3::<Seq3<Nk<Positive<PopPushX>>, Nk<Abs<1, 3>>, Nk<Abs<2, 2>>>, RSeq3<RSk, 0, RPos<RPopPushX>, RAbs<1, 3>, RAbs<2, 2>>>(FREE, 2) }
    #[kani::unwind(5)] fn c05_neg_in_choice() [T0 S] : "Q|Choice2<Seq2<!Seq3<pop,pop,x>, push>, pop>; depth 2" {
        abs3::<Choice2<Seq2<Nk<Negative<PopPopX>>, Nk<Abs<1, 1>>>, Abs<2, 2>>, RChoice2<RSeq2<RSk, 0, RNeg<RPopPopX>, RAbs<1, 1>>, RAbs<2, 2>>>(FREE, 2) }
    #[kani::unwind(5)] fn c05_nested_twice() [T0 S] : "Q|Choice2<Seq2<Option<Choice2<Seq3<pop,push,x>, pop>>, x>, depth-reader>: two nested restores; depth 2" {
        abs3::<Choice2<Seq2<Nk<Option<Choice2<PopPushX, Abs<0, 2>>>>, Nk<Abs<2, 0>>>, Abs<1, 3>>,
               RChoice2<RSeq2<RSk, 0, ROpt<RChoice2<RPopPushX, RAbs<0, 2>>>, RAbs<2, 0>>, RAbs<1, 3>>>(FREE, 2) }
    // ---- C05-U (ii): predicates / exhausted choices restore whatever the verdict
    #[kani::unwind(5)] fn c05_positive_restores() [T0 S] : "Q|Positive<Seq3<pop,push,x>> returns with the stack as it was, matched or not (parse and check); depth 2" {
        always_restores::<Positive<PopPushX>>(2) }
    #[kani::unwind(5)] fn c05_negative_restores() [T0 S] : "Q|Negative<Seq3<pop,pop,x>> returns with the stack as it was, matched or not; depth 2" {
        always_restores::<Negative<PopPopX>>(2) }
    #[kani::unwind(5)] fn c05_negative_restores_push() [T0 S] : "Q|Negative<Seq3<push,push,x>>; depth 0" {
        always_restores::<Negative<PushPushX>>(0) }
    #[kani::unwind(5)] fn c05_failed_choice_restores() [T0 S] : "Q|Choice3 with every alternative failing after stack effects leaves the stack as it was; depth 2" {
        failed_choice_restores::<Choice3<PopPushX, PushPushX, PopPopX>>(2) }
    // ---- C05-S: the real pest::Stack against the model
    #[kani::unwind(8)] fn c05_s_stack_free_0_3() [] : "Q|real pest::Stack<u8> == copy-on-snapshot model under every well-nested schedule of 3 operations {push v,pop,snapshot,clear_snapshot,restore} from the empty stack (the one characterised pest defect, KF-C05-1, assumed away)" {
        stack_conformance::<0, 3>(false, false) }
    #[kani::unwind(8)] fn c05_s_stack_free_1_3() [] : "Q|same, 3 operations from 1 initial element" {
        stack_conformance::<1, 3>(false, false) }
    #[kani::unwind(8)] fn c05_s_stack_free_0_4() [] : "T|4 free operations from the empty stack" {
        stack_conformance::<0, 4>(false, false) }
    #[kani::unwind(8)] fn c05_k_stack_nested_clear() [] : "K|twin: the characterised schedule itself on the real pest::Stack<u8> with a symbolic element: push v; snapshot; snapshot; pop; clear_snapshot; restore must give back [v] (pest 2.7.14 clear_snapshot loses it) - expected to FAIL" {
        known_nested_clear() }
}
