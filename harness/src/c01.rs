//! C01 — the typed parser recognises exactly what pest recognises (Layer R: runtime units against the
//! reference evaluator; Layer G lives in g01.rs).
use crate::common::*;
use crate::nd;
use crate::refpeg::*;
use crate::rel::*;
use pest_typed::choices::*;
use pest_typed::predefined_node::*;
use pest_typed::sequence::*;
use pest_typed::TypedNode;

/// Leaf on every valid UTF-8 string of L bytes from every boundary position: parse == check == spec.
pub fn leaf<'i, T: TypedNode<'i, R>, RT: RefNode, const L: usize>(buf: &'i [u8; L], can_fail: bool, can_adv: bool) {
    let s = nd::as_str(buf);
    let p0 = nd::usize();
    nd::assume(p0 <= L && s.is_char_boundary(p0));
    let (o, _) = pc_ref::<T, RT>(s, p0, 0);
    if let Some(e) = o.check {
        assert!(e <= L && s.is_char_boundary(e) && e >= p0);
    }
    cover!(o.check.is_some() && (o.check.unwrap() > p0 && p0 > 0 || !can_adv), "matched (and advanced from an inner position, where the node can advance)");
    cover!(o.check.is_none() || !can_fail, "rejected (n/a for nodes that cannot fail)");
}
macro_rules! leaf_h {
    ($t:ty, $rt:ty, $l:expr, $cf:expr) => {{
        let buf = nd::utf8_buf::<{ $l }>();
        leaf::<$t, $rt, { $l }>(&buf, $cf, true)
    }};
    ($t:ty, $rt:ty, $l:expr, $cf:expr, noadv) => {{
        let buf = nd::utf8_buf::<{ $l }>();
        leaf::<$t, $rt, { $l }>(&buf, $cf, false)
    }};
}

/// Combinators over overlapping concrete children on ASCII text over a small alphabet.
pub fn comb<'i, T: TypedNode<'i, R>, RT: RefNode, const L: usize>(buf: &'i [u8; L], d0: usize, want: usize) {
    let s = nd::as_str(buf);
    let p0 = nd::usize();
    nd::assume(p0 <= L);
    let (o, _) = pc_ref::<T, RT>(s, p0, d0);
    cover!(o.check.is_some() && o.check.unwrap() >= p0 + want, "matched at least `want` bytes");
    cover!(o.check.is_none() || o.check == Some(p0), "rejected or matched empty");
}
macro_rules! comb_h {
    ($t:ty, $rt:ty, $l:expr, $alpha:expr, $d0:expr) => {{
        let buf = nd::ascii_buf::<{ $l }>($alpha);
        comb::<$t, $rt, { $l }>(&buf, $d0, 2)
    }};
    ($t:ty, $rt:ty, $l:expr, $alpha:expr, $d0:expr, $want:expr) => {{
        let buf = nd::ascii_buf::<{ $l }>($alpha);
        comb::<$t, $rt, { $l }>(&buf, $d0, $want)
    }};
}
/// Reference of a Unicode-property node: the character at the cursor (decoded independently) satisfies pest's
/// own predicate. Checks the wiring (match_char_by, cursor advance), not pest's tables.
pub struct RLetter;
impl RefNode for RLetter {
    fn eval(c: Ctx<'_>, mut s: RefState) -> Option<RefState> {
        let (ch, n) = char_at(c, s.pos)?;
        if pest::unicode::LETTER(char::from_u32(ch)?) {
            s.pos += n;
            Some(s)
        } else {
            None
        }
    }
}
/// `predefined_node::match_char_by` with a caller-supplied predicate (here: "is an ASCII digit or 'é'").
fn match_char_by_fn() {
    let buf = nd::utf8_buf::<3>();
    let s = nd::as_str(&buf);
    let p0 = nd::usize();
    nd::assume(p0 <= 3 && s.is_char_boundary(p0));
    let mut inp = pest_typed::Position::new(s, p0).unwrap();
    let before = pest_typed::Input::byte_offset(&inp);
    let got = pest_typed::predefined_node::match_char_by(&mut inp, |c| c.is_ascii_digit() || c == 'é');
    let exp = s[p0..].chars().next().filter(|c| c.is_ascii_digit() || *c == 'é');
    assert!(got == exp, "match_char_by returns a character other than the matching one at the cursor");
    let after = pest_typed::Input::byte_offset(&inp);
    assert!(after == before + exp.map(|c| c.len_utf8()).unwrap_or(0), "match_char_by moved the cursor by something else than the matched character");
    cover!(got == Some('é'), "multi-byte match");
    cover!(got.is_none() && p0 < 3, "no match");
}
type SkW<T> = Skipped<T, Ws, 1>;
type NkW<T> = Skipped<T, Ws, 0>;

harnesses! {
    // ---- R-leaf: every terminal matcher of input.rs through its node, arbitrary UTF-8
    #[kani::unwind(8)] fn c01_leaf_str_4() [T0 S] : "Q|Str<\"aé\"> == starts_with spec; every valid UTF-8 string of 4 bytes, every boundary position" { leaf_h!(Str<A_EACUTE>, RStr<A_EACUTE>, 4, true) }
    #[kani::unwind(8)] fn c01_leaf_str_empty_4() [T0 S] : "Q|Str<\"\"> always matches without consuming" { leaf_h!(Str<EMPTYS>, RStr<EMPTYS>, 3, false, noadv) }
    #[kani::unwind(8)] fn c01_leaf_insens_4() [T0 S] : "Q|Insens<\"Az\"> == ASCII-case-fold spec (non-ASCII never folds)" { leaf_h!(Insens<'_, AZ>, RInsens<AZ>, 4, true) }
    #[kani::unwind(8)] fn c01_leaf_insens_k_4() [T0 S] : "Q|Insens<\"K\">: the Kelvin sign U+212A must not match" { leaf_h!(Insens<'_, K_UPPER>, RInsens<K_UPPER>, 4, true) }
    #[kani::unwind(8)] fn c01_leaf_range_4() [T0 S] : "Q|CharRange<'a','é'> inclusive at both ends" { leaf_h!(CharRange<'a', 'é'>, RRange<'a', 'é'>, 4, true) }
    #[kani::unwind(8)] fn c01_leaf_range_wide_4() [T0 S] : "Q|CharRange<'é','😀'> (2- to 4-byte chars)" { leaf_h!(CharRange<'é', '😀'>, RRange<'é', '😀'>, 4, true) }
    #[kani::unwind(8)] fn c01_leaf_any_4() [T0 S] : "Q|ANY consumes exactly one char" { leaf_h!(ANY, RAny, 4, true) }
    #[kani::unwind(8)] fn c01_leaf_soi_4() [T0 S] : "Q|SOI only at 0" { leaf_h!(SOI, RSoi, 3, true, noadv) }
    #[kani::unwind(8)] fn c01_leaf_eoi_4() [T0 S] : "Q|EOI only at the end" { leaf_h!(EOI, REoiRaw, 3, true, noadv) }
    #[kani::unwind(8)] fn c01_leaf_newline_4() [T0 S] : "Q|NEWLINE = CRLF | LF | CR" { leaf_h!(NEWLINE, RNewline, 4, true) }
    #[kani::unwind(8)] fn c01_leaf_skipchar2_4() [T0 S] : "Q|SkipChar<2>" { leaf_h!(SkipChar<'_, 2>, RSkipChar<2>, 4, true) }
    #[kani::unwind(8)] fn c01_leaf_skipchar0_4() [T0 S] : "Q|SkipChar<0>" { leaf_h!(SkipChar<'_, 0>, RSkipChar<0>, 3, false, noadv) }
    #[kani::unwind(8)] fn c01_leaf_skip_bb_4() [T0 S] : "Q|Skip<[\"]]\"]> stops at the first occurrence, else at the end" { leaf_h!(Skip<'_, N_BB>, RSkipUntil<N_BB>, 4, false) }
    #[kani::unwind(8)] fn c01_leaf_skip_two_4() [T0 S] : "Q|Skip<[\"a\",\"bc\"]>: earliest occurrence of any needle, not first-listed" { leaf_h!(Skip<'_, N_A_BC>, RSkipUntil<N_A_BC>, 4, false) }
    #[kani::unwind(8)] fn c01_leaf_skip_eacute_4() [T0 S] : "Q|Skip<[\"é\"]> multi-byte needle" { leaf_h!(Skip<'_, N_EACUTE>, RSkipUntil<N_EACUTE>, 4, false) }
    #[kani::unwind(8)] fn c01_leaf_unicode_letter_3() [T0 S] : "Q|Unicode-property node LETTER: matches exactly when pest::unicode::LETTER holds for the (independently decoded) character at the cursor, and consumes it; UTF-8 3 bytes" { leaf_h!(pest_typed::predefined_node::unicode::LETTER, RLetter, 3, true) }
    #[kani::unwind(6)] fn c01_leaf_match_char_by_3() [] : "Q|predefined_node::match_char_by with a custom predicate: returns the matching character at the cursor and advances by its length; UTF-8 3 bytes" { match_char_by_fn() }
    #[kani::unwind(9)] fn c01_leaf_str_5() [T0 S] : "T|Str, UTF-8 5 bytes" { leaf_h!(Str<A_EACUTE>, RStr<A_EACUTE>, 5, true) }
    #[kani::unwind(9)] fn c01_leaf_insens_5() [T0 S] : "T|Insens, UTF-8 5 bytes" { leaf_h!(Insens<'_, AZ>, RInsens<AZ>, 5, true) }
    #[kani::unwind(9)] fn c01_leaf_range_5() [T0 S] : "T|CharRange, UTF-8 5 bytes" { leaf_h!(CharRange<'a', 'é'>, RRange<'a', 'é'>, 5, true) }
    #[kani::unwind(9)] fn c01_leaf_newline_5() [T0 S] : "T|NEWLINE, UTF-8 5 bytes" { leaf_h!(NEWLINE, RNewline, 5, true) }
    #[kani::unwind(9)] fn c01_leaf_skip_two_5() [T0 S] : "T|Skip two needles, UTF-8 5 bytes" { leaf_h!(Skip<'_, N_A_BC>, RSkipUntil<N_A_BC>, 5, false) }
    #[kani::unwind(9)] fn c01_leaf_skipchar2_5() [T0 S] : "T|SkipChar<2>, UTF-8 5 bytes" { leaf_h!(SkipChar<'_, 2>, RSkipChar<2>, 5, true) }

    // ---- R-comb: combinators over overlapping concrete children, with and without skip
    #[kani::unwind(8)] fn c01_comb_seq2_skip() [T0 S] : "Q|Seq2<\"a\",\"b\"> with WS skip; 4 bytes over {a,b,' ',x}, all positions" {
        comb_h!(Seq2<SkW<Str<A>>, SkW<Str<B>>>, RSeq2<RWs, 1, RStr<A>, RStr<B>>, 4, b"ab x", 0) }
    #[kani::unwind(8)] fn c01_comb_seq3_noskip() [T0 S] : "Q|Seq3<\"a\",\"ab\",\"b\"> no skip" {
        comb_h!(Seq3<NkW<Str<A>>, NkW<Str<AB>>, NkW<Str<B>>>, RSeq3<RWs, 0, RStr<A>, RStr<AB>, RStr<B>>, 4, b"ab x", 0) }
    #[kani::unwind(8)] fn c01_comb_choice3_overlap() [T0 S] : "Q|Choice3<\"a\",\"ab\",\"b\">: ordered choice, first match wins (never the longest)" {
        comb_h!(Choice3<Str<A>, Str<AB>, Str<B>>, RChoice3<RStr<A>, RStr<AB>, RStr<B>>, 4, b"abx", 0, 1) }
    #[kani::unwind(8)] fn c01_comb_seq_choice() [T0 S] : "Q|Seq2<Choice2<\"ab\",\"a\">, \"b\"> with skip (no backtracking into a committed choice)" {
        comb_h!(Seq2<SkW<Choice2<Str<AB>, Str<A>>>, SkW<Str<B>>>, RSeq2<RWs, 1, RChoice2<RStr<AB>, RStr<A>>, RStr<B>>, 4, b"ab ", 0) }
    #[kani::unwind(8)] fn c01_comb_rep_skip() [T0 S] : "Q|Rep<Choice2<\"ab\",\"a\">> with skip" {
        comb_h!(RepMin<Choice2<Str<AB>, Str<A>>, Ws, 1, 0>, RRep<RWs, 1, RChoice2<RStr<AB>, RStr<A>>, 0, { usize::MAX }>, 4, b"ab ", 0) }
    #[kani::unwind(8)] fn c01_comb_reponce_noskip() [T0 S] : "Q|RepOnce<\"a\"> no skip" {
        comb_h!(RepMin<Str<A>, Ws, 0, 1>, RRep<RWs, 0, RStr<A>, 1, { usize::MAX }>, 4, b"ab ", 0) }
    #[kani::unwind(8)] fn c01_comb_opt_seq() [T0 S] : "Q|Seq2<Option<\"a\">, \"ab\"> with skip" {
        comb_h!(Seq2<SkW<Option<Str<A>>>, SkW<Str<AB>>>, RSeq2<RWs, 1, ROpt<RStr<A>>, RStr<AB>>, 4, b"ab ", 0) }
    #[kani::unwind(8)] fn c01_comb_pos_neg() [T0 S] : "Q|Seq3<&\"a\", !\"ab\", ANY> no skip" {
        comb_h!(Seq3<NkW<Positive<Str<A>>>, NkW<Negative<Str<AB>>>, NkW<ANY>>, RSeq3<RWs, 0, RPos<RStr<A>>, RNeg<RStr<AB>>, RAny>, 3, b"abx", 0, 1) }
    #[kani::unwind(8)] fn c01_comb_push_peek() [T0 S] : "Q|Seq3<Push<Choice2<\"a\",\"b\">>, \"x\", PEEK>: PEEK matches the pushed text" {
        comb_h!(Seq3<NkW<Push<Choice2<Str<A>, Str<B>>>>, NkW<Str<X>>, NkW<PEEK<'_>>>, RSeq3<RWs, 0, RPush<RChoice2<RStr<A>, RStr<B>>>, RStr<X>, RPeek>, 4, b"abx", 0) }
    #[kani::unwind(8)] fn c01_comb_push_pop_drop() [T0 S] : "Q|Seq4<Push<ANY>, Push<ANY>, DROP, POP> no skip" {
        comb_h!(Seq4<NkW<Push<ANY>>, NkW<Push<ANY>>, NkW<DROP>, NkW<POP<'_>>>, RSeq4<RWs, 0, RPush<RAny>, RPush<RAny>, RDrop, RPop>, 4, b"ab", 0) }
    #[kani::unwind(8)] fn c01_comb_pospred_push() [T0 S] : "Q|Seq4<Push<\"a\">, &Push<\"b\">, \"b\", POP>: a successful lookahead leaves the stack as it was" {
        comb_h!(Seq4<NkW<Push<Str<A>>>, NkW<Positive<Push<Str<B>>>>, NkW<Str<B>>, NkW<POP<'_>>>, RSeq4<RWs, 0, RPush<RStr<A>>, RPos<RPush<RStr<B>>>, RStr<B>, RPop>, 4, b"ab", 0) }
}
