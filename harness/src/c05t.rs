//! Thorough tier of c05: the same abstract-children steps over 4 and 5 input positions (generated from c05.rs; do not edit).
use crate::c03::*;
use crate::common::*;
use crate::refpeg::*;
use crate::rel::*;
use pest_typed::choices::*;
use pest_typed::predefined_node::*;
use pest_typed::sequence::*;
use crate::c05::*;

harnesses! {
    #[kani::unwind(6)] fn c05_choice_poppush_n4() [T0 S] : "T|Choice2<Seq3<pop,push,x>, depth-reader>: a failed first alternative that popped and pushed leaves no trace; depth 2 [4 input positions]" {
        absn::<5, Choice2<PopPushX, Abs<1, 3>>, RChoice2<RPopPushX, RAbs<1, 3>>>(FREE, 2, 0) }
    #[kani::unwind(7)] fn c05_choice_poppush_n5() [T0 S] : "T|Choice2<Seq3<pop,push,x>, depth-reader>: a failed first alternative that popped and pushed leaves no trace; depth 2 [5 input positions]" {
        absn::<6, Choice2<PopPushX, Abs<1, 3>>, RChoice2<RPopPushX, RAbs<1, 3>>>(FREE, 2, 0) }
    #[kani::unwind(6)] fn c05_choice3_mixed_n4() [T0 S] : "T|Choice3<Seq3<push,push,x>, Seq3<pop,pop,x>, pop>; depth 2 [4 input positions]" {
        absn::<5, Choice3<PushPushX, PopPopX, Abs<2, 2>>, RChoice3<RPushPushX, RPopPopX, RAbs<2, 2>>>(FREE, 2, 0) }
    #[kani::unwind(7)] fn c05_choice3_mixed_n5() [T0 S] : "T|Choice3<Seq3<push,push,x>, Seq3<pop,pop,x>, pop>; depth 2 [5 input positions]" {
        absn::<6, Choice3<PushPushX, PopPopX, Abs<2, 2>>, RChoice3<RPushPushX, RPopPopX, RAbs<2, 2>>>(FREE, 2, 0) }
    #[kani::unwind(6)] fn c05_option_then_pop_n4() [T0 S] : "T|Seq2<Option<Seq3<pop,push,x>>, pop>: the entry the optional body replaced is back for the following POP; depth 1 [4 input positions]" {
        absn::<5, Seq2<Nk<Option<PopPushX>>, Nk<Abs<2, 2>>>, RSeq2<RSk, 0, ROpt<RPopPushX>, RAbs<2, 2>>>(FREE, 1, 0) }
    #[kani::unwind(7)] fn c05_option_then_pop_n5() [T0 S] : "T|Seq2<Option<Seq3<pop,push,x>>, pop>: the entry the optional body replaced is back for the following POP; depth 1 [5 input positions]" {
        absn::<6, Seq2<Nk<Option<PopPushX>>, Nk<Abs<2, 2>>>, RSeq2<RSk, 0, ROpt<RPopPushX>, RAbs<2, 2>>>(FREE, 1, 0) }
    #[kani::unwind(6)] fn c05_option_poppop_n4() [T0 S] : "T|Option<Seq3<pop,pop,x>>; depth 2 [4 input positions]" {
        absn::<5, Option<PopPopX>, ROpt<RPopPopX>>(FREE, 2, 1) }
    #[kani::unwind(7)] fn c05_option_poppop_n5() [T0 S] : "T|Option<Seq3<pop,pop,x>>; depth 2 [5 input positions]" {
        absn::<6, Option<PopPopX>, ROpt<RPopPopX>>(FREE, 2, 1) }
    #[kani::unwind(6)] fn c05_rep_poppush_skip_n4() [T0 S] : "T|Rep<Seq3<pop,push,x>> with skip: a failed iteration gives back skip, pop and push; depth 1 [4 input positions]" {
        absn::<5, RepMin<PopPushX, AbsSkip<3>, 1, 0>, RRep<RSk, 1, RPopPushX, 0, { usize::MAX }>>(PROG1, 1, 1) }
    #[kani::unwind(7)] fn c05_rep_poppush_skip_n5() [T0 S] : "T|Rep<Seq3<pop,push,x>> with skip: a failed iteration gives back skip, pop and push; depth 1 [5 input positions]" {
        absn::<6, RepMin<PopPushX, AbsSkip<3>, 1, 0>, RRep<RSk, 1, RPopPushX, 0, { usize::MAX }>>(PROG1, 1, 1) }
    #[kani::unwind(6)] fn c05_repminmax_pushpush_n4() [T0 S] : "T|RepMinMax<Seq3<push,push,x>,0,2>; depth 0 [4 input positions]" {
        absn::<5, RepMinMax<PushPushX, AbsSkip<3>, 0, 0, 2>, RRep<RSk, 0, RPushPushX, 0, 2>>(FREE, 0, 1) }
    #[kani::unwind(7)] fn c05_repminmax_pushpush_n5() [T0 S] : "T|RepMinMax<Seq3<push,push,x>,0,2>; depth 0 [5 input positions]" {
        absn::<6, RepMinMax<PushPushX, AbsSkip<3>, 0, 0, 2>, RRep<RSk, 0, RPushPushX, 0, 2>>(FREE, 0, 1) }
    #[kani::unwind(6)] fn c05_atomic_repeat_poppush_n4() [T0 S] : "T|AtomicRepeat<Seq3<pop,push,x>>; depth 1 [4 input positions]" {
        absn::<5, AtomicRepeat<PopPushX>, RRep<REmpty, 0, RPopPushX, 0, { usize::MAX }>>(PROG1, 1, 1) }
    #[kani::unwind(7)] fn c05_atomic_repeat_poppush_n5() [T0 S] : "T|AtomicRepeat<Seq3<pop,push,x>>; depth 1 [5 input positions]" {
        absn::<6, AtomicRepeat<PopPushX>, RRep<REmpty, 0, RPopPushX, 0, { usize::MAX }>>(PROG1, 1, 1) }
    #[kani::unwind(6)] fn c05_pos_in_seq_n4() [T0 S] : "T|Seq3<&Seq3<pop,push,x>, depth-reader, pop>: a successful lookahead leaves the stack untouched; depth 2 [4 input positions]" {
        absn::<5, Seq3<Nk<Positive<PopPushX>>, Nk<Abs<1, 3>>, Nk<Abs<2, 2>>>, RSeq3<RSk, 0, RPos<RPopPushX>, RAbs<1, 3>, RAbs<2, 2>>>(FREE, 2, 0) }
    #[kani::unwind(7)] fn c05_pos_in_seq_n5() [T0 S] : "T|Seq3<&Seq3<pop,push,x>, depth-reader, pop>: a successful lookahead leaves the stack untouched; depth 2 [5 input positions]" {
        absn::<6, Seq3<Nk<Positive<PopPushX>>, Nk<Abs<1, 3>>, Nk<Abs<2, 2>>>, RSeq3<RSk, 0, RPos<RPopPushX>, RAbs<1, 3>, RAbs<2, 2>>>(FREE, 2, 0) }
    #[kani::unwind(6)] fn c05_neg_in_choice_n4() [T0 S] : "T|Choice2<Seq2<!Seq3<pop,pop,x>, push>, pop>; depth 2 [4 input positions]" {
        absn::<5, Choice2<Seq2<Nk<Negative<PopPopX>>, Nk<Abs<1, 1>>>, Abs<2, 2>>, RChoice2<RSeq2<RSk, 0, RNeg<RPopPopX>, RAbs<1, 1>>, RAbs<2, 2>>>(FREE, 2, 0) }
    #[kani::unwind(7)] fn c05_neg_in_choice_n5() [T0 S] : "T|Choice2<Seq2<!Seq3<pop,pop,x>, push>, pop>; depth 2 [5 input positions]" {
        absn::<6, Choice2<Seq2<Nk<Negative<PopPopX>>, Nk<Abs<1, 1>>>, Abs<2, 2>>, RChoice2<RSeq2<RSk, 0, RNeg<RPopPopX>, RAbs<1, 1>>, RAbs<2, 2>>>(FREE, 2, 0) }
    #[kani::unwind(6)] fn c05_nested_twice_n4() [T0 S] : "T|Choice2<Seq2<Option<Choice2<Seq3<pop,push,x>, pop>>, x>, depth-reader>: two nested restores; depth 2 [4 input positions]" {
        absn::<5, Choice2<Seq2<Nk<Option<Choice2<PopPushX, Abs<0, 2>>>>, Nk<Abs<2, 0>>>, Abs<1, 3>>, RChoice2<RSeq2<RSk, 0, ROpt<RChoice2<RPopPushX, RAbs<0, 2>>>, RAbs<2, 0>>, RAbs<1, 3>>>(FREE, 2, 0) }
    #[kani::unwind(7)] fn c05_nested_twice_n5() [T0 S] : "T|Choice2<Seq2<Option<Choice2<Seq3<pop,push,x>, pop>>, x>, depth-reader>: two nested restores; depth 2 [5 input positions]" {
        absn::<6, Choice2<Seq2<Nk<Option<Choice2<PopPushX, Abs<0, 2>>>>, Nk<Abs<2, 0>>>, Abs<1, 3>>, RChoice2<RSeq2<RSk, 0, ROpt<RChoice2<RPopPushX, RAbs<0, 2>>>, RAbs<2, 0>>, RAbs<1, 3>>>(FREE, 2, 0) }
}
