//! Shared pieces of the runtime-level (Layer R) harnesses.
use crate::nd;
use pest_typed::predefined_node::*;
use pest_typed::tracker::Tracker;
use pest_typed::{Input, NeverFailedTypedNode, Span, Stack, StringArrayWrapper, StringWrapper, TypedNode};

/// Rule type of the hand-assembled (non-derived) harness grammars.
#[derive(Clone, Copy, Debug, Eq, Hash, Ord, PartialEq, PartialOrd)]
pub enum R {
    X,
    Y,
    Z,
    EOI,
}

macro_rules! strw {
    ($($n:ident = $s:expr;)*) => {$(
        #[derive(Clone, PartialEq, Eq, Hash, Debug)]
        pub struct $n;
        impl StringWrapper for $n { const CONTENT: &'static str = $s; }
    )*};
}
strw! {
    A = "a"; B = "b"; AB = "ab"; ABC = "abc"; AA = "aa"; X = "x"; SP = " "; EMPTYS = "";
    EACUTE = "é"; A_EACUTE = "aé"; CJK = "中"; EMOJI = "😀"; K_UPPER = "K"; AZ = "Az";
}
macro_rules! strsw {
    ($($n:ident = $s:expr;)*) => {$(
        #[derive(Clone, PartialEq, Eq, Hash, Debug)]
        pub struct $n;
        impl StringArrayWrapper for $n { const CONTENT: &'static [&'static str] = $s; }
    )*};
}
strsw! {
    N_BB = &["]]"]; N_A_BC = &["a", "bc"]; N_EACUTE = &["é"]; N_EMPTY = &[""]; N_NONE = &[];
}

/// A cheap never-failing skip node: skips ' ' characters (stands in for `AtomicRepeat<WHITESPACE>`
/// where the property is about the combinator, not about `AtomicRepeat` itself, which has its own harness).
#[derive(Clone, Debug, Default, PartialEq, Eq, Hash)]
pub struct Ws {
    pub n: usize,
}
impl<'i> NeverFailedTypedNode<'i, R> for Ws {
    fn parse_with<I: Input<'i>>(input: I, stack: &mut Stack<Span<'i>>) -> (I, Self) {
        let start = input.byte_offset();
        let end = <Self as NeverFailedTypedNode<'i, R>>::check_with(input, stack);
        (end, Ws { n: end.byte_offset() - start })
    }
    fn check_with<I: Input<'i>>(mut input: I, _stack: &mut Stack<Span<'i>>) -> I {
        while input.match_string(" ") {}
        input
    }
}

impl<'i> pest_typed::iterators::Pairs<'i, R> for Ws {
    fn for_self_or_each_child(&self, _f: &mut impl FnMut(pest_typed::iterators::Token<'i, R>)) {}
}

/// Reference: skip spaces in `b[..end]` from `p`.
pub fn ref_ws(b: &[u8], mut p: usize, end: usize) -> usize {
    while p < end && b[p] == b' ' {
        p += 1;
    }
    p
}
/// Reference: does `lit` occur at `p` within `b[..end]`?
pub fn ref_lit(b: &[u8], p: usize, end: usize, lit: &[u8]) -> Option<usize> {
    if p + lit.len() > end {
        return None;
    }
    let mut i = 0;
    while i < lit.len() {
        if b[p + i] != lit[i] {
            return None;
        }
        i += 1;
    }
    Some(p + lit.len())
}

pub fn check<'i, T: TypedNode<'i, R>, I: Input<'i>>(
    input: I,
    stack: &mut Stack<Span<'i>>,
    tracker: &mut Tracker<'i, R>,
) -> Option<usize> {
    T::try_check_partial_with(input, stack, tracker).map(|i| i.byte_offset())
}
pub fn parse<'i, T: TypedNode<'i, R>, I: Input<'i>>(
    input: I,
    stack: &mut Stack<Span<'i>>,
    tracker: &mut Tracker<'i, R>,
) -> Option<(usize, T)> {
    T::try_parse_partial_with(input, stack, tracker).map(|(i, t)| (i.byte_offset(), t))
}
