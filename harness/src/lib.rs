//! Kani proof harnesses for pest-typed (properties C01..C20). See /verif/DESIGN.md.
#![allow(non_camel_case_types, dead_code, unused_imports, clippy::all)]
#![recursion_limit = "1024"]

/// Vacuity witness; the driver requires every cover to be SATISFIED.
#[cfg(kani)]
macro_rules! cover {
    ($c:expr, $m:literal) => {
        kani::cover!($c, $m)
    };
}
#[cfg(not(kani))]
macro_rules! cover {
    ($c:expr, $m:literal) => {
        let _ = $c;
    };
}

/// Fixed-count loops of the harness itself are unrolled by macro, so that the harness-wide unwind bound
/// can stay at (input length + 2): the bound is what the solver cost scales with.
macro_rules! unroll6 {
    ($i:ident, $body:block) => {
        { const $i: usize = 0; $body } { const $i: usize = 1; $body } { const $i: usize = 2; $body }
        { const $i: usize = 3; $body } { const $i: usize = 4; $body } { const $i: usize = 5; $body }
    };
}
macro_rules! unroll10 {
    ($i:ident, $body:block) => {
        { const $i: usize = 0; $body } { const $i: usize = 1; $body } { const $i: usize = 2; $body }
        { const $i: usize = 3; $body } { const $i: usize = 4; $body } { const $i: usize = 5; $body }
        { const $i: usize = 6; $body } { const $i: usize = 7; $body } { const $i: usize = 8; $body }
        { const $i: usize = 9; $body }
    };
}

pub mod nd;

/// Define harnesses: each is a `#[kani::proof]` under Kani and a plain registered fn natively.
/// Syntax: `#[kani::unwind(5)] fn name() [T0 S] : "Q|description" { body }` — the bracket lists
/// the stub sets of `stubs.rs`; the first char of the description is the tier (Q quick+thorough,
/// T thorough only, K known-finding twin expected to FAIL, W reachability witness that must FAIL).
#[macro_export]
macro_rules! harnesses {
    ($( $(#[$m:meta])* fn $name:ident() [$($set:ident)*] : $desc:literal $body:block )*) => {
        $( $crate::hitem!{ [$($set)*] [$(#[cfg_attr(kani, $m)])*] $name $body } )*
        pub fn register(v: &mut Vec<(&'static str, &'static str, fn())>) {
            $( v.push((stringify!($name), $desc, $name as fn())); )*
        }
    };
}
#[macro_export]
macro_rules! hitem {
    ([] [$($attrs:tt)*] $name:ident $body:block) => {
        $($attrs)*
        #[cfg_attr(kani, kani::proof)]
        pub fn $name() {
            // the second build of C09 (debug assertions off) must really be that build
            if option_env!("PV_EXPECT_NODBG").is_some() {
                assert!(!cfg!(debug_assertions), "profile override not honoured: debug assertions are still on");
            }
            let _unit: () = $body;
            cover!(true, "end of harness reached");
        }
    };
    ([T0 $($rest:ident)*] [$($attrs:tt)*] $name:ident $body:block) => {
        $crate::hitem!{ [$($rest)*] [$($attrs)*
            #[cfg_attr(kani, kani::stub(pest_typed::tracker::Tracker::record, crate::stubs::t_record))]
            #[cfg_attr(kani, kani::stub(pest_typed::tracker::Tracker::empty_stack, crate::stubs::t_empty_stack))]
            #[cfg_attr(kani, kani::stub(pest_typed::tracker::Tracker::out_of_bound, crate::stubs::t_out_of_bound))]
            #[cfg_attr(kani, kani::stub(pest_typed::tracker::Tracker::repeat_too_many_times, crate::stubs::t_repeat_too_many_times))]
        ] $name $body }
    };
    ([S $($rest:ident)*] [$($attrs:tt)*] $name:ident $body:block) => {
        $crate::hitem!{ [$($rest)*] [$($attrs)*
            #[cfg_attr(kani, kani::stub(pest::Stack::push, crate::stubs::s_push))]
            #[cfg_attr(kani, kani::stub(pest::Stack::pop, crate::stubs::s_pop))]
            #[cfg_attr(kani, kani::stub(pest::Stack::peek, crate::stubs::s_peek))]
            #[cfg_attr(kani, kani::stub(pest::Stack::len, crate::stubs::s_len))]
            #[cfg_attr(kani, kani::stub(pest::Stack::snapshot, crate::stubs::s_snapshot))]
            #[cfg_attr(kani, kani::stub(pest::Stack::clear_snapshot, crate::stubs::s_clear_snapshot))]
            #[cfg_attr(kani, kani::stub(pest::Stack::restore, crate::stubs::s_restore))]
        ] $name $body }
    };
    ([T2 $($rest:ident)*] [$($attrs:tt)*] $name:ident $body:block) => {
        $crate::hitem!{ [$($rest)*] [$($attrs)*
            #[cfg_attr(kani, kani::stub(pest_typed::tracker::Tracker::record_during_with, crate::stubs::t_record_during_with))]
        ] $name $body }
    };
    ([T1 $($rest:ident)*] [$($attrs:tt)*] $name:ident $body:block) => {
        $crate::hitem!{ [$($rest)*] [$($attrs)*
            #[cfg_attr(kani, kani::stub(pest_typed::tracker::Tracker::get_entry, crate::stubs::t1_get_entry))]
            #[cfg_attr(kani, kani::stub(pest_typed::tracker::Tracker::clear, crate::stubs::t1_clear))]
        ] $name $body }
    };
    ([E $($rest:ident)*] [$($attrs:tt)*] $name:ident $body:block) => {
        $crate::hitem!{ [$($rest)*] [$($attrs)*
            #[cfg_attr(kani, kani::stub(pest_typed::tracker::Tracker::collect, crate::stubs::t_collect))]
        ] $name $body }
    };
    ([F $($rest:ident)*] [$($attrs:tt)*] $name:ident $body:block) => {
        $crate::hitem!{ [$($rest)*] [$($attrs)*
            #[cfg_attr(kani, kani::stub(alloc::fmt::format, crate::stubs::f_format))]
        ] $name $body }
    };
}

pub mod stubs;
pub mod common;
pub mod refpeg;
pub mod rel;
pub mod grel;
pub mod gtmp;
#[rustfmt::skip]
pub mod gen;
pub mod c01;
pub mod c03;
pub mod c03t;
pub mod c04;
pub mod c05;
pub mod c05t;
pub mod c06;
pub mod c06t;
pub mod c08;
pub mod c10;
pub mod c12;
pub mod c13;
pub mod c15;
#[cfg(feature = "c16")]
pub mod c16;
pub mod c17;
pub mod c18;
pub mod c19;
pub mod c19t;

pub fn registry() -> Vec<(&'static str, &'static str, fn())> {
    let mut v = Vec::new();
    c01::register(&mut v);
    c03::register(&mut v);
    c03t::register(&mut v);
    c04::register(&mut v);
    c05::register(&mut v);
    c05t::register(&mut v);
    c06::register(&mut v);
    c06t::register(&mut v);
    c08::register(&mut v);
    c10::register(&mut v);
    c12::register(&mut v);
    c13::register(&mut v);
    c15::register(&mut v);
    #[cfg(feature = "c16")]
    c16::register(&mut v);
    c17::register(&mut v);
    c18::register(&mut v);
    c19::register(&mut v);
    c19t::register(&mut v);
    gen::register(&mut v);
    v
}
