//! NOT REGISTERED IN ANY CHECK (tier X): kept as the record of why C15 is not applicable. `children()`,
//! `as_token()` and `as_thin_token()` build `Vec<Token>` trees; even for a two-level rule with abstract leaves
//! over 3 positions none of the three returns a verdict within 1500 s (each alone), and on derive-generated
//! rules they time out at 2 bytes. The token *stream* (`for_each_child`) is checked by C02.
//!
//! C15 — traversal helpers enumerate exactly the tokens of the pair tree (children / as_token / thin-token
//! clause). Rule structs assembled with the library's own rule macros exactly as the generator emits them
//! (three levels, every emission kind), abstract leaves; expected tokens come from an independent walk of the
//! parsed value's public fields.
use crate::c03::FREE;
use crate::common::*;
use crate::nd;
use crate::refpeg::*;
use crate::rel::*;
use pest_typed::iterators::{Pair, Pairs, ThinToken, Token};
use pest_typed::predefined_node::*;
use pest_typed::sequence::*;
use pest_typed::tracker::Tracker;
use pest_typed::{AsInput, Input, Position, Spanned, TypedNode};

pub mod rules {
    use super::*;
    // leaf rules
    pest_typed::normal_rule!(x, "leaf", R, R::X, Abs<0, 0>, AbsSkip<3>, false);
    pest_typed::atomic_rule!(xa, "atomic leaf", R, R::X, Abs<1, 0>);
    // middle: normal rule with two leaf rules, the second optional, boxed content
    type MidInner<'i, const S: usize> = Seq2<Skipped<x<'i, S>, AbsSkip<3>, S>, Skipped<Option<xa<'i, S>>, AbsSkip<3>, S>>;
    pest_typed::normal_rule!(mid, "middle", R, R::Y, MidInner<'i, INHERITED>, AbsSkip<3>, true);
    // silent wrapper around a leaf: transparent
    pest_typed::silent_rule!(sil, "silent", R, R::Y, x<'i, INHERITED>, AbsSkip<3>, false);
    // compound-atomic wrapper around mid: its descendants are pruned
    pest_typed::compound_atomic_rule!(comp, "compound", R, R::Y, mid<'i, 0>, false);
    // top: mid, then a repetition of silent-wrapped leaves
    type TopInner<'i, const S: usize> = Seq2<Skipped<mid<'i, S>, AbsSkip<3>, S>, Skipped<RepMin<sil<'i, S>, AbsSkip<3>, S, 0>, AbsSkip<3>, S>>;
    pest_typed::normal_rule!(top, "top", R, R::Z, TopInner<'i, INHERITED>, AbsSkip<3>, false);
    // top2: a compound-atomic child and a lookahead (contributes nothing)
    type Top2Inner<'i, const S: usize> = Seq2<Skipped<Positive<x<'i, S>>, AbsSkip<3>, S>, Skipped<comp<'i, S>, AbsSkip<3>, S>>;
    pest_typed::normal_rule!(top2, "top2", R, R::Z, Top2Inner<'i, INHERITED>, AbsSkip<3>, false);
}

fn tok_is(t: &Token<'_, R>, rule: R, start: usize, end: usize, nchildren: usize) -> bool {
    t.rule == rule && t.span.start() == start && t.span.end() == end && t.children.len() == nchildren
}
fn thin_is(t: &ThinToken<R>, rule: R, start: usize, end: usize, nchildren: usize) -> bool {
    t.rule == rule && t.start == start && t.end == end && t.children.len() == nchildren
}

fn mid_children() {
    abs_init(3, FREE);
    let p0 = nd::usize();
    nd::assume(p0 <= 3);
    let (_o, v) = p_ref::<rules::mid<'_, 1>, RRule<2, 0, RSeq2<RAbsSkip<3>, 1, RRule<1, 0, RAbs<0, 0>>, ROpt<RRule<1, 2, RAbs<1, 0>>>>>>(XXX, p0, 0);
    if let Some(m) = v {
        let first = &m.content.content.0.matched;
        let second = m.content.content.1.matched.as_ref();
        let n = if second.is_some() { 2 } else { 1 };
        let ch = m.children();
        assert!(ch.len() == n, "children() is not the list of direct child tokens");
        assert!(tok_is(&ch[0], R::X, first.span.start(), first.span.end(), 0), "first child token differs");
        if let Some(s) = second {
            assert!(tok_is(&ch[1], R::X, s.span.start(), s.span.end(), 0), "second child token differs");
            assert!(ch[1].span.start() >= ch[0].span.end(), "children not in input order");
        }
        let t = m.as_token();
        assert!(tok_is(&t, R::Y, m.span.start(), m.span.end(), n), "as_token() root differs");
        assert!(t.children[0] == ch[0], "as_token() child differs from children()");
        let th = m.as_thin_token();
        assert!(thin_is(&th, R::Y, m.span.start(), m.span.end(), n), "as_thin_token() root differs");
        assert!(thin_is(&th.children[0], R::X, first.span.start(), first.span.end(), 0), "thin child differs");
        assert!(ch[0].span.start() >= m.span.start() && ch[n - 1].span.end() <= m.span.end(), "children not nested in the parent");
        cover!(n == 2, "optional child present");
        core::mem::forget(ch);
        core::mem::forget(t);
        core::mem::forget(th);
        core::mem::forget(m);
    }
}

fn mid_only(which: u8) {
    abs_init(3, FREE);
    let p0 = nd::usize();
    nd::assume(p0 <= 3);
    let inp = Position::new(XXX, p0).unwrap();
    let mut tracker = Tracker::<R>::new(XXX.as_input());
    let mut stack = fresh_stack(XXX, 0);
    let r = <rules::mid<'_, 1> as TypedNode<R>>::try_parse_partial_with(inp, &mut stack, &mut tracker);
    if let Some((_, m)) = r {
        let first = &m.content.content.0.matched;
        let second = m.content.content.1.matched.as_ref();
        let n = if second.is_some() { 2 } else { 1 };
        if which == 0 {
            let ch = m.children();
            assert!(ch.len() == n, "children() is not the list of direct child tokens");
            assert!(tok_is(&ch[0], R::X, first.span.start(), first.span.end(), 0), "first child token differs");
            if let Some(s) = second {
                assert!(tok_is(&ch[1], R::X, s.span.start(), s.span.end(), 0), "second child token differs");
            }
            core::mem::forget(ch);
        } else if which == 1 {
            let t = m.as_token();
            assert!(tok_is(&t, R::Y, m.span.start(), m.span.end(), n), "as_token() root differs");
            assert!(tok_is(&t.children[0], R::X, first.span.start(), first.span.end(), 0), "as_token() child differs");
            core::mem::forget(t);
        } else {
            let th = m.as_thin_token();
            assert!(thin_is(&th, R::Y, m.span.start(), m.span.end(), n), "as_thin_token() root differs");
            assert!(thin_is(&th.children[0], R::X, first.span.start(), first.span.end(), 0), "thin child differs");
            core::mem::forget(th);
        }
        cover!(n == 2, "optional child present");
        core::mem::forget(m);
    }
    core::mem::forget(stack);
    core::mem::forget(tracker);
}

fn top_children() {
    abs_init(3, [0, 0, 1, 0]);
    let p0 = nd::usize();
    nd::assume(p0 <= 3);
    let inp = Position::new(XXX, p0).unwrap();
    let mut tracker = Tracker::<R>::new(XXX.as_input());
    let mut stack = fresh_stack(XXX, 0);
    let r = <rules::top<'_, 1> as TypedNode<R>>::try_parse_partial_with(inp, &mut stack, &mut tracker);
    if let Some((_, t)) = r {
        let m = &t.content.content.0.matched;
        let reps = &t.content.content.1.matched.content;
        let n = 1 + reps.len();
        let ch = t.children();
        assert!(ch.len() == n, "children() is not: the middle rule, then one token per silent-wrapped leaf");
        let mid_n = if m.content.content.1.matched.is_some() { 2 } else { 1 };
        assert!(tok_is(&ch[0], R::Y, m.span.start(), m.span.end(), mid_n), "first child (middle rule) differs");
        let mut k = 0;
        while k < 3 {
            if k < reps.len() {
                let leaf = &reps[k].matched.content;
                assert!(tok_is(&ch[1 + k], R::X, leaf.span.start(), leaf.span.end(), 0), "token of a silent-wrapped leaf differs");
                assert!(ch[1 + k].span.start() >= ch[k].span.end(), "children not in input order");
            }
            k += 1;
        }
        let th = t.as_thin_token();
        assert!(thin_is(&th, R::Z, t.span.start(), t.span.end(), n), "as_thin_token() root differs");
        assert!(thin_is(&th.children[0], R::Y, m.span.start(), m.span.end(), mid_n), "thin middle token differs");
        let fx = &m.content.content.0.matched;
        assert!(thin_is(&th.children[0].children[0], R::X, fx.span.start(), fx.span.end(), 0), "thin grandchild differs");
        cover!(reps.len() >= 1 && mid_n == 2, "repetition and optional both present");
        core::mem::forget(ch);
        core::mem::forget(th);
        core::mem::forget(t);
    }
    core::mem::forget(stack);
    core::mem::forget(tracker);
}

fn top2_children() {
    abs_init(3, FREE);
    let p0 = nd::usize();
    nd::assume(p0 <= 3);
    let inp = Position::new(XXX, p0).unwrap();
    let mut tracker = Tracker::<R>::new(XXX.as_input());
    let mut stack = fresh_stack(XXX, 0);
    let r = <rules::top2<'_, 1> as TypedNode<R>>::try_parse_partial_with(inp, &mut stack, &mut tracker);
    if let Some((_, t)) = r {
        let c = &t.content.content.1.matched;
        let ch = t.children();
        // the lookahead contributes nothing; the compound-atomic child has no children of its own
        assert!(ch.len() == 1, "lookahead contributed a token, or the compound-atomic child is missing");
        assert!(tok_is(&ch[0], R::Y, c.span.start(), c.span.end(), 0), "compound-atomic child token differs (or is not pruned)");
        let tk = t.as_token();
        assert!(tok_is(&tk, R::Z, t.span.start(), t.span.end(), 1));
        cover!(true, "accepted");
        core::mem::forget(ch);
        core::mem::forget(tk);
        core::mem::forget(t);
    }
    core::mem::forget(stack);
    core::mem::forget(tracker);
}

harnesses! {
    #[kani::unwind(5)] fn c15_mid_children_only() [T0 S] : "X|children() of { x ~ xa? }" { mid_only(0) }
    #[kani::unwind(5)] fn c15_mid_as_token_only() [T0 S] : "X|as_token() of { x ~ xa? }" { mid_only(1) }
    #[kani::unwind(5)] fn c15_mid_thin_only() [T0 S] : "X|as_thin_token() of { x ~ xa? }" { mid_only(2) }
    #[kani::unwind(5)] fn c15_mid_children() [T0 S] : "X|normal rule { x ~ xa? } (boxed): children() = direct child tokens in input order nested in the parent; as_token() and as_thin_token() carry the same rule, offsets and children; abstract leaves, 3 positions" { mid_children() }
    #[kani::unwind(5)] fn c15_top_children() [T0 S] : "X|three levels: top { mid ~ sil* }: silent wrappers are transparent, repetition yields one token per iteration in order, thin tokens down to grandchildren" { top_children() }
    #[kani::unwind(5)] fn c15_top2_children() [T0 S] : "X|top2 { &x ~ comp }: lookahead contributes nothing, a compound-atomic child has no children" { top2_children() }
}
