//! C12 — line, column and line text of every position agree with pest (real code, no stubs).
use crate::nd;
use pest_typed::Position;

fn line_col<const L: usize>() {
    let buf = nd::utf8_buf::<L>();
    let s = nd::as_str(&buf);
    let o = nd::usize();
    let m = Position::new(s, o);
    let t = pest::Position::new(s, o);
    assert!(m.is_some() == t.is_some());
    assert!(m.is_some() == (o <= L && s.is_char_boundary(o)));
    nd::assume(m.is_some());
    let (m, t) = (m.unwrap(), t.unwrap());
    let a = m.line_col();
    let b = t.line_col();
    cover!(L < 2 || (a.0 >= 2 && a.1 >= 2), "second line, second column (n/a below 2 bytes)");
    cover!(L < 2 || (a.0 == 1 && a.1 < 1 + o), "multi-byte character before the offset (n/a below 2 bytes)");
    assert!(a.0 == b.0);
    assert!(a.1 == b.1);
    assert!(m.pos() == o);
}

/// Same, with the string built from K symbolic picks out of six character kinds
/// (LF, CR, 1-, 2-, 3-, 4-byte), to reach more characters than raw bytes allow.
fn line_col_kinds<const K: usize, const CAP: usize>() {
    let mut buf = [0u8; CAP];
    let mut len = 0usize;
    let mut k = 0;
    while k < K {
        let c = nd::u8();
        nd::assume(c < 6);
        match c {
            0 => { buf[len] = b'\n'; len += 1; }
            1 => { buf[len] = b'\r'; len += 1; }
            2 => { buf[len] = b'a'; len += 1; }
            3 => { buf[len] = 0xC3; buf[len + 1] = 0xA9; len += 2; }
            4 => { buf[len] = 0xE4; buf[len + 1] = 0xB8; buf[len + 2] = 0xAD; len += 3; }
            _ => { buf[len] = 0xF0; buf[len + 1] = 0x9F; buf[len + 2] = 0x98; buf[len + 3] = 0x80; len += 4; }
        }
        k += 1;
    }
    let s = nd::as_str(&buf[..len]);
    let o = nd::usize();
    let m = Position::new(s, o);
    let t = pest::Position::new(s, o);
    assert!(m.is_some() == t.is_some());
    nd::assume(m.is_some());
    let (m, t) = (m.unwrap(), t.unwrap());
    let a = m.line_col();
    let b = t.line_col();
    cover!(a.0 >= 2 && a.1 >= 2, "second line, second column");
    assert!(a.0 == b.0 && a.1 == b.1);
}

fn line_of<const L: usize>(alphabet: &[u8]) {
    let buf = nd::ascii_buf::<L>(alphabet);
    let s = nd::as_str(&buf);
    let o = nd::usize();
    let m = Position::new(s, o);
    let t = pest::Position::new(s, o);
    nd::assume(m.is_some() && t.is_some());
    let (m, t) = (m.unwrap(), t.unwrap());
    let a = m.line_of();
    let b = t.line_of();
    cover!(a.len() < L && a.len() > 0 && a.as_ptr() != s.as_ptr(), "a later line, shorter than the input");
    assert!(a.as_ptr() == b.as_ptr());
    assert!(a.len() == b.len());
}

/// line_of on strings of K characters drawn from {LF, CR, 'a', 'é'} (multi-byte characters before the offset).
fn line_of_kinds<const K: usize, const CAP: usize>() {
    let mut buf = [0u8; CAP];
    let mut len = 0usize;
    let mut k = 0;
    while k < K {
        let c = nd::u8();
        nd::assume(c < 4);
        match c {
            0 => { buf[len] = b'\n'; len += 1; }
            1 => { buf[len] = b'\r'; len += 1; }
            2 => { buf[len] = b'a'; len += 1; }
            _ => { buf[len] = 0xC3; buf[len + 1] = 0xA9; len += 2; }
        }
        k += 1;
    }
    let s = unsafe { core::str::from_utf8_unchecked(&buf[..len]) };
    let o = nd::usize();
    let m = Position::new(s, o);
    let t = pest::Position::new(s, o);
    nd::assume(m.is_some() && t.is_some());
    let (m, t) = (m.unwrap(), t.unwrap());
    let a = m.line_of();
    let b = t.line_of();
    cover!(len > K && a.len() < len && a.len() > 0, "multi-byte character present, line shorter than the input");
    assert!(a.as_ptr() == b.as_ptr());
    assert!(a.len() == b.len());
}

harnesses! {
    #[kani::unwind(3)]
    fn c12_line_col_0() [] : "Q|line_col vs pest; empty string, all usize offsets" { line_col::<0>() }
    #[kani::unwind(3)]
    fn c12_line_col_1() [] : "Q|line_col vs pest; every valid UTF-8 string of 1 byte, all usize offsets" { line_col::<1>() }
    #[kani::unwind(4)]
    fn c12_line_col_2() [] : "Q|line_col vs pest; UTF-8, 2 bytes" { line_col::<2>() }
    #[kani::unwind(5)]
    fn c12_line_col_3() [] : "Q|line_col vs pest; UTF-8, 3 bytes" { line_col::<3>() }
    #[kani::unwind(6)]
    fn c12_line_col_4() [] : "Q|line_col vs pest; UTF-8, 4 bytes" { line_col::<4>() }
    #[kani::unwind(7)]
    fn c12_line_col_5() [] : "Q|line_col vs pest; UTF-8, 5 bytes" { line_col::<5>() }
    #[kani::unwind(8)]
    fn c12_line_col_6() [] : "T|line_col vs pest; UTF-8, 6 bytes" { line_col::<6>() }
    #[kani::unwind(9)]
    fn c12_line_col_7() [] : "T|line_col vs pest; UTF-8, 7 bytes" { line_col::<7>() }
    #[kani::unwind(14)]
    fn c12_line_col_kinds_3() [] : "T|line_col vs pest; 3 characters drawn from {LF,CR,'a',2-,3-,4-byte} (up to 12 bytes)" { line_col_kinds::<3, 12>() }
    #[kani::unwind(4)]
    fn c12_line_of_2() [] : "Q|line_of vs pest (same sub-slice); 2 bytes over {LF,CR,'a'}, all offsets" { line_of::<2>(b"\n\ra") }
    #[kani::unwind(5)]
    fn c12_line_of_3() [] : "Q|line_of vs pest; 3 bytes over {LF,CR,'a'}" { line_of::<3>(b"\n\ra") }
    #[kani::unwind(8)]
    fn c12_line_of_kinds_3() [] : "Q|line_of vs pest; 3 characters drawn from {LF,CR,'a','é'} (3..6 bytes), all offsets" { line_of_kinds::<3, 6>() }
    #[kani::unwind(10)]
    fn c12_line_of_kinds_4() [] : "T|line_of vs pest; 4 characters drawn from {LF,CR,'a','é'} (4..8 bytes)" { line_of_kinds::<4, 8>() }
    #[kani::unwind(6)]
    fn c12_line_of_4() [] : "T|line_of vs pest; 4 bytes over {LF,CR,'a'}" { line_of::<4>(b"\n\ra") }
}
