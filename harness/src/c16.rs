//! C16 — generated getters return exactly the referenced sub-nodes that matched (emit_rule_reference).
//! For each rule r and mentioned rule x: r.x() has the wrapper shape the mention position dictates, its
//! elements are (pointer-)identical to the nodes reached by walking r.content by hand along the path the
//! grammar dictates, in order of mention, and their spans are the x-labelled direct children of the tree.
use crate::nd;
use crate::stubs;
use core::ptr;
use pest_typed::iterators::Pair;
use pest_typed::tracker::Tracker;
use pest_typed::{AsInput, Input, Stack, TypedNode};

pub const GRAMMAR_DOC: &str = "x={\"a\"} y={\"b\"} g_pair={x~y~x} g_opt={x~y?} g_alt={x|y} g_rep={x*~y} g_pos={&x~x} g_neg={!y~x} g_nest={(x~y?)?~x} g_deep={g_opt~x} g_three={((x?~b)?~b)?~y} g_push={(PUSH(x?)~y~DROP)?~y}";

pub mod gb {
    use pest_typed_derive::TypedParser;
    #[derive(TypedParser)]
    #[grammar_inline = r#"
x = { "a" }
y = { "b" }
g_pair = { x ~ y ~ x }
g_opt  = { x ~ y? }
g_alt  = { x | y }
g_rep  = { x* ~ y }
g_pos  = { &x ~ x }
g_neg  = { !y ~ x }
g_nest = { (x ~ y?)? ~ x }
g_deep = { g_opt ~ x }
g_three = { ((x? ~ "b")? ~ "b")? ~ y }
g_push = { (PUSH(x?) ~ y ~ DROP)? ~ y }
"#]
    #[emit_rule_reference]
    pub struct P;
}
pub mod gu {
    use pest_typed_derive::TypedParser;
    #[derive(TypedParser)]
    #[grammar_inline = r#"
x = { "a" }
y = { "b" }
g_pair = { x ~ y ~ x }
g_opt  = { x ~ y? }
g_alt  = { x | y }
g_rep  = { x* ~ y }
g_pos  = { &x ~ x }
g_neg  = { !y ~ x }
g_nest = { (x ~ y?)? ~ x }
g_deep = { g_opt ~ x }
g_three = { ((x? ~ "b")? ~ "b")? ~ y }
g_push = { (PUSH(x?) ~ y ~ DROP)? ~ y }
"#]
    #[emit_rule_reference]
    #[box_only_if_needed]
    pub struct P;
}

macro_rules! getters_for {
    ($m:ident, $g:ident) => {
        pub mod $m {
            use crate::c16::$g as g;
            use crate::nd;
            use crate::stubs;
            use core::ptr;
            use pest_typed::iterators::Pair;
            use pest_typed::tracker::Tracker;
            use pest_typed::{AsInput, Input, Stack, TypedNode};
            type Ru = g::Rule;

            fn parse<'i, T: TypedNode<'i, Ru>>(s: &'i str) -> Option<T> {
                let inp = s.as_input();
                stubs::stack_reset();
                let mut stack = Stack::new();
                let mut tracker = Tracker::<Ru>::new(inp);
                let r = T::try_parse_partial_with(inp, &mut stack, &mut tracker).map(|x| x.1);
                core::mem::forget(stack);
                core::mem::forget(tracker);
                r
            }
            pub fn pair() {
                let buf = nd::ascii_buf::<3>(b"ab");
                let s = unsafe { core::str::from_utf8_unchecked(&buf) };
                if let Some(r) = parse::<g::rules::g_pair<'_, 1>>(s) {
                    let (x0, x1) = r.x();
                    let y = r.y();
                    let c = &r.content.content;
                    assert!(ptr::eq(x0, &c.0.matched), "x().0 is not the first mention's node");
                    assert!(ptr::eq(x1, &c.2.matched), "x().1 is not the third element's node");
                    assert!(ptr::eq(y, &c.1.matched), "y() is not the second element's node");
                    assert!(x0.span.start() == 0 && y.span.start() == 1 && x1.span.start() == 2, "getters out of mention order");
                    cover!(true, "accepted");
                    core::mem::forget(r);
                }
            }
            pub fn opt() {
                let buf = nd::ascii_buf::<2>(b"ab");
                let s = unsafe { core::str::from_utf8_unchecked(&buf) };
                if let Some(r) = parse::<g::rules::g_opt<'_, 1>>(s) {
                    let x = r.x();
                    let y: Option<&g::rules::y<'_, 1>> = r.y();
                    let c = &r.content.content;
                    assert!(ptr::eq(x, &c.0.matched));
                    match (y, c.1.matched.as_ref()) {
                        (None, None) => {}
                        (Some(a), Some(b)) => assert!(ptr::eq(a, b), "y() is not the optional's node"),
                        _ => panic!("y() is Some/None unlike the optional in the content"),
                    }
                    assert!(y.is_some() == (buf[1] == b'b'), "y() present exactly when the optional matched");
                    cover!(y.is_some(), "optional matched");
                    cover!(y.is_none(), "optional absent");
                    core::mem::forget(r);
                }
            }
            pub fn alt() {
                let buf = nd::ascii_buf::<1>(b"ab");
                let s = unsafe { core::str::from_utf8_unchecked(&buf) };
                if let Some(r) = parse::<g::rules::g_alt<'_, 1>>(s) {
                    let x: Option<&g::rules::x<'_, 1>> = r.x();
                    let y: Option<&g::rules::y<'_, 1>> = r.y();
                    assert!(x.is_some() != y.is_some(), "exactly one alternative's getter is Some");
                    assert!(x.is_some() == (buf[0] == b'a'), "getter of an alternative that did not match is Some");
                    if let Some(x) = x {
                        assert!(ptr::eq(x, r.content._0().unwrap()));
                    }
                    if let Some(y) = y {
                        assert!(ptr::eq(y, r.content._1().unwrap()));
                    }
                    cover!(y.is_some(), "second alternative");
                    core::mem::forget(r);
                }
            }
            pub fn rep() {
                let buf = nd::ascii_buf::<3>(b"ab");
                let s = unsafe { core::str::from_utf8_unchecked(&buf) };
                if let Some(r) = parse::<g::rules::g_rep<'_, 1>>(s) {
                    let xs: Vec<&g::rules::x<'_, 1>> = r.x();
                    let c = &r.content.content;
                    let n = c.0.matched.content.len();
                    assert!(xs.len() == n, "x() does not yield one node per iteration");
                    let mut i = 0;
                    while i < 3 {
                        if i < n {
                            assert!(ptr::eq(xs[i], &c.0.matched.content[i].matched), "x()[i] is not the i-th iteration's node");
                            assert!(xs[i].span.start() == i, "x() not in input order");
                        }
                        i += 1;
                    }
                    assert!(ptr::eq(r.y(), &c.1.matched));
                    cover!(n == 2, "two iterations");
                    core::mem::forget(xs);
                    core::mem::forget(r);
                }
            }
            pub fn pos() {
                let buf = nd::ascii_buf::<2>(b"ab");
                let s = unsafe { core::str::from_utf8_unchecked(&buf) };
                if let Some(r) = parse::<g::rules::g_pos<'_, 1>>(s) {
                    let (p, x) = r.x();
                    let c = &r.content.content;
                    assert!(ptr::eq(p, &c.0.matched.content), "first x() is not the lookahead's node");
                    assert!(ptr::eq(x, &c.1.matched), "second x() is not the consumed node");
                    assert!(p.span.start() == 0 && x.span.start() == 0);
                    cover!(true, "accepted");
                    core::mem::forget(r);
                }
            }
            pub fn neg() {
                let buf = nd::ascii_buf::<2>(b"ab");
                let s = unsafe { core::str::from_utf8_unchecked(&buf) };
                if let Some(r) = parse::<g::rules::g_neg<'_, 1>>(s) {
                    // no y() getter exists for a rule mentioned only under `!` (compile-time fact)
                    let x = r.x();
                    assert!(ptr::eq(x, &r.content.content.1.matched));
                    cover!(true, "accepted");
                    core::mem::forget(r);
                }
            }
            pub fn nest() {
                let buf = nd::ascii_buf::<3>(b"ab");
                let s = unsafe { core::str::from_utf8_unchecked(&buf) };
                if let Some(r) = parse::<g::rules::g_nest<'_, 1>>(s) {
                    let (x0, x1): (Option<&g::rules::x<'_, 1>>, &g::rules::x<'_, 1>) = r.x();
                    let y: Option<&g::rules::y<'_, 1>> = r.y();
                    let c = &r.content.content;
                    assert!(ptr::eq(x1, &c.1.matched));
                    match (&c.0.matched, x0) {
                        (None, None) => assert!(y.is_none(), "y() Some although the enclosing optional is absent"),
                        (Some(inner), Some(x0)) => {
                            assert!(ptr::eq(x0, &inner.content.0.matched));
                            match (inner.content.1.matched.as_ref(), y) {
                                (None, None) => {}
                                (Some(a), Some(b)) => assert!(ptr::eq(a, b)),
                                _ => panic!("nested optional getter disagrees with the content"),
                            }
                        }
                        _ => panic!("x().0 disagrees with the optional in the content"),
                    }
                    cover!(y.is_some(), "nested optional present");
                    cover!(x0.is_some() && y.is_none(), "outer optional present, nested absent");
                    core::mem::forget(r);
                }
            }
            pub fn three() {
                let buf = nd::ascii_buf::<4>(b"ab");
                let s = unsafe { core::str::from_utf8_unchecked(&buf) };
                if let Some(r) = parse::<g::rules::g_three<'_, 1>>(s) {
                    // three nested optional levels are still flattened to one Option
                    let x: Option<&g::rules::x<'_, 1>> = r.x();
                    let c = &r.content.content;
                    let walked: Option<&g::rules::x<'_, 1>> = match &c.0.matched {
                        None => None,
                        Some(l1) => match &l1.content.0.matched {
                            None => None,
                            Some(l2) => l2.content.0.matched.as_ref(),
                        },
                    };
                    match (x, walked) {
                        (None, None) => {}
                        (Some(a), Some(b)) => assert!(ptr::eq(a, b), "x() is not the node stored three optionals deep"),
                        _ => panic!("x() is Some/None unlike the node in the content"),
                    }
                    cover!(x.is_some(), "innermost optional matched");
                    cover!(x.is_none() && c.0.matched.is_some(), "outer levels matched, innermost did not");
                    core::mem::forget(r);
                }
            }
            pub fn push() {
                let buf = nd::ascii_buf::<3>(b"ab");
                let s = unsafe { core::str::from_utf8_unchecked(&buf) };
                if let Some(r) = parse::<g::rules::g_push<'_, 1>>(s) {
                    let x: Option<&g::rules::x<'_, 1>> = r.x();
                    let c = &r.content.content;
                    let walked: Option<&g::rules::x<'_, 1>> = match &c.0.matched {
                        None => None,
                        Some(l1) => l1.content.0.matched.content.as_ref(),
                    };
                    match (x, walked) {
                        (None, None) => {}
                        (Some(a), Some(b)) => assert!(ptr::eq(a, b), "x() is not the node stored inside PUSH(..)"),
                        _ => panic!("x() is Some/None unlike the node in the content"),
                    }
                    cover!(x.is_some(), "pushed optional matched");
                    cover!(x.is_none() && c.0.matched.is_some(), "group matched, pushed optional empty");
                    core::mem::forget(r);
                }
            }
            pub fn deep() {
                let buf = nd::ascii_buf::<3>(b"ab");
                let s = unsafe { core::str::from_utf8_unchecked(&buf) };
                if let Some(r) = parse::<g::rules::g_deep<'_, 1>>(s) {
                    // only the x matched directly by g_deep's own expression, not the one inside g_opt
                    let x: &g::rules::x<'_, 1> = r.x();
                    let c = &r.content.content;
                    assert!(ptr::eq(x, &c.1.matched), "x() reaches through another rule");
                    assert!(ptr::eq(r.g_opt(), &c.0.matched));
                    assert!(x.span.start() >= 1);
                    cover!(x.span.start() == 2, "g_opt consumed two bytes");
                    core::mem::forget(r);
                }
            }
        }
    };
}
getters_for!(boxed, gb);
getters_for!(unboxed, gu);

harnesses! {
    #[kani::unwind(5)] fn c16_boxed_pair() [T0 S F] : "Q|g_pair = { x ~ y ~ x }: x() is the tuple (1st, 3rd element), y() the 2nd; identical nodes, mention order; boxed content; inputs of 3 bytes over {a,b}" { boxed::pair() }
    #[kani::unwind(5)] fn c16_boxed_opt() [T0 S F] : "Q|g_opt = { x ~ y? }: y() is Some exactly when the optional matched, and is that node" { boxed::opt() }
    #[kani::unwind(5)] fn c16_boxed_alt() [T0 S F] : "Q|g_alt = { x | y }: exactly the matched alternative's getter is Some" { boxed::alt() }
    #[kani::unwind(5)] fn c16_boxed_rep() [T0 S F] : "Q|g_rep = { x* ~ y }: x() yields one node per iteration in input order" { boxed::rep() }
    #[kani::unwind(5)] fn c16_boxed_pos() [T0 S F] : "Q|g_pos = { &x ~ x }: the lookahead's node comes first" { boxed::pos() }
    #[kani::unwind(5)] fn c16_boxed_neg() [T0 S F] : "Q|g_neg = { !y ~ x }: x() only (no getter under a negative predicate)" { boxed::neg() }
    #[kani::unwind(5)] fn c16_boxed_nest() [T0 S F] : "Q|g_nest = { (x ~ y?)? ~ x }: nested options flattened, absent outer optional gives None" { boxed::nest() }
    #[kani::unwind(5)] fn c16_boxed_deep() [T0 S F] : "Q|g_deep = { g_opt ~ x }: only nodes matched directly by the rule's own expression" { boxed::deep() }
    #[kani::unwind(6)] fn c16_boxed_three() [T0 S F] : "Q|g_three = { ((x? ~ \"b\")? ~ \"b\")? ~ y }: three nested optional levels flatten to one Option, Some exactly when the innermost matched" { boxed::three() }
    #[kani::unwind(5)] fn c16_boxed_push() [T0 S F] : "Q|g_push = { (PUSH(x?) ~ y ~ DROP)? ~ y }: an optional mention inside PUSH inside an optional group flattens to one Option" { boxed::push() }
    #[kani::unwind(5)] fn c16_unboxed_pair() [T0 S F] : "Q|g_pair with box_only_if_needed (content stored inline)" { unboxed::pair() }
    #[kani::unwind(5)] fn c16_unboxed_opt() [T0 S F] : "Q|g_opt with box_only_if_needed" { unboxed::opt() }
    #[kani::unwind(5)] fn c16_unboxed_rep() [T0 S F] : "Q|g_rep with box_only_if_needed" { unboxed::rep() }
    #[kani::unwind(5)] fn c16_unboxed_nest() [T0 S F] : "Q|g_nest with box_only_if_needed" { unboxed::nest() }
    #[kani::unwind(5)] fn c16_unboxed_deep() [T0 S F] : "Q|g_deep with box_only_if_needed" { unboxed::deep() }
}
