//! C08 — parsing a Span or Position sub-input equals parsing that slice on its own.
//! Leaf level: real code, no stubs. Every terminal matcher of input.rs is reached through its node.
use crate::common::*;
use crate::nd;
use pest_typed::predefined_node::*;
use pest_typed::tracker::Tracker;
use pest_typed::{AsInput, Input, Position, Span, Stack, TypedNode};

/// Content summary of a parsed leaf, relative to `base` (the offset shift).
pub type Sum = (u32, usize, usize);
fn sp(s: &Span<'_>, base: usize) -> Sum {
    (0, s.start() - base, s.end() - base)
}

macro_rules! leaf_rel {
    ($fname:ident, $ty:ty, $can_fail:expr, $proj:expr) => {
        /// mode 0: Span(s,a,b) vs s[a..b];  mode 1: Position(s,a) vs s[a..]
        pub fn $fname<const L: usize>(mode: u8) {
            let buf = nd::utf8_buf::<L>();
            let s = nd::as_str(&buf);
            let a = nd::usize();
            let b = if mode == 0 { nd::usize() } else { L };
            let span = Span::new(s, a, b);
            nd::assume(span.is_some());
            let span = span.unwrap();
            // standalone copy of the slice
            let mut copy = [0u8; L];
            let mut i = 0;
            while i < L {
                if a + i < b {
                    copy[i] = buf[a + i];
                }
                i += 1;
            }
            let alone: &str = unsafe { core::str::from_utf8_unchecked(&copy[..b - a]) };
            let proj = $proj;
            let mut st1: Stack<Span<'_>> = Stack::new();
            let mut st2: Stack<Span<'_>> = Stack::new();
            let (sub_p, sub_c): (Option<(usize, Sum)>, Option<usize>) = if mode == 0 {
                let inp = span.as_input();
                let mut tr = Tracker::<R>::new(inp);
                let p = <$ty as TypedNode<R>>::try_parse_partial_with(inp, &mut st1, &mut tr)
                    .map(|(i, n)| (i.byte_offset(), proj(&n, a)));
                let c = <$ty as TypedNode<R>>::try_check_partial_with(inp, &mut st1, &mut tr).map(|i| i.byte_offset());
                core::mem::forget(tr);
                (p, c)
            } else {
                let inp = Position::new(s, a).unwrap().as_input();
                let mut tr = Tracker::<R>::new(inp);
                let p = <$ty as TypedNode<R>>::try_parse_partial_with(inp, &mut st1, &mut tr)
                    .map(|(i, n)| (i.byte_offset(), proj(&n, a)));
                let c = <$ty as TypedNode<R>>::try_check_partial_with(inp, &mut st1, &mut tr).map(|i| i.byte_offset());
                core::mem::forget(tr);
                (p, c)
            };
            let inp2 = alone.as_input();
            let mut tr2 = Tracker::<R>::new(inp2);
            let alone_p = <$ty as TypedNode<R>>::try_parse_partial_with(inp2, &mut st2, &mut tr2)
                .map(|(i, n)| (i.byte_offset(), proj(&n, 0)));
            let alone_c = <$ty as TypedNode<R>>::try_check_partial_with(inp2, &mut st2, &mut tr2).map(|i| i.byte_offset());
            core::mem::forget(tr2);
            cover!(a > 0 && alone_c.is_some(), "sub-input starting after 0, matched");
            cover!(mode == 1 || (a > 0 && b < L), "proper inner sub-range (Span mode)");
            cover!(alone_c.is_none() || !$can_fail, "not matched (n/a for nodes that cannot fail)");
            match (sub_p, alone_p) {
                (None, None) => {}
                (Some((o1, c1)), Some((o2, c2))) => {
                    assert!(o1 == o2 + a);
                    assert!(c1.0 == c2.0 && c1.1 == c2.1 && c1.2 == c2.2);
                    assert!(o1 <= b && s.is_char_boundary(o1));
                }
                _ => panic!("sub-input verdict differs from the standalone slice (parse)"),
            }
            match (sub_c, alone_c) {
                (None, None) => {}
                (Some(o1), Some(o2)) => assert!(o1 == o2 + a),
                _ => panic!("sub-input verdict differs from the standalone slice (check)"),
            }
            core::mem::forget(st1);
            core::mem::forget(st2);
        }
    };
}

leaf_rel!(l_str, Str<A_EACUTE>, true, |_n: &Str<A_EACUTE>, _b: usize| -> Sum { (0, 0, 0) });
leaf_rel!(l_insens, Insens<'_, AZ>, true, |n: &Insens<'_, AZ>, _b: usize| -> Sum {
    let c = n.content.as_bytes();
    (c.len() as u32, if c.len() > 0 { c[0] as usize } else { 0 }, if c.len() > 1 { c[1] as usize } else { 0 })
});
leaf_rel!(l_range, CharRange<'a', 'é'>, true, |n: &CharRange<'a', 'é'>, _b: usize| -> Sum { (n.content as u32, 0, 0) });
leaf_rel!(l_any, ANY, true, |n: &ANY, _b: usize| -> Sum { (n.content as u32, 0, 0) });
leaf_rel!(l_soi, SOI, false, |_n: &SOI, _b: usize| -> Sum { (0, 0, 0) });
leaf_rel!(l_eoi, EOI, true, |_n: &EOI, _b: usize| -> Sum { (0, 0, 0) });
leaf_rel!(l_newline, NEWLINE, true, |n: &NEWLINE, _b: usize| -> Sum {
    (match n.content { NewLineType::CRLF => 1, NewLineType::LF => 2, NewLineType::CR => 3 }, 0, 0)
});
leaf_rel!(l_skipchar1, SkipChar<'_, 1>, true, |n: &SkipChar<'_, 1>, b: usize| -> Sum { sp(&n.span, b) });
leaf_rel!(l_skipchar2, SkipChar<'_, 2>, true, |n: &SkipChar<'_, 2>, b: usize| -> Sum { sp(&n.span, b) });
leaf_rel!(l_skip_bb, Skip<'_, N_BB>, false, |n: &Skip<'_, N_BB>, b: usize| -> Sum { sp(&n.span, b) });
leaf_rel!(l_skip_eacute, Skip<'_, N_EACUTE>, false, |n: &Skip<'_, N_EACUTE>, b: usize| -> Sum { sp(&n.span, b) });
leaf_rel!(l_skip_two, Skip<'_, N_A_BC>, false, |n: &Skip<'_, N_A_BC>, b: usize| -> Sum { sp(&n.span, b) });

harnesses! {
    #[kani::unwind(6)] fn c08_span_str_4() [] : "Q|Str<\"aé\"> on Span(s,a,b) == on s[a..b] shifted by a (parse+check); every valid UTF-8 s of 4 bytes, every valid a<=b" { l_str::<4>(0) }
    #[kani::unwind(6)] fn c08_span_insens_4() [] : "Q|Insens<\"Az\"> on Span vs slice, UTF-8 4 bytes" { l_insens::<4>(0) }
    #[kani::unwind(6)] fn c08_span_range_4() [] : "Q|CharRange<'a','é'> on Span vs slice, UTF-8 4 bytes (multi-byte char straddling b)" { l_range::<4>(0) }
    #[kani::unwind(6)] fn c08_span_any_4() [] : "Q|ANY on Span vs slice, UTF-8 4 bytes" { l_any::<4>(0) }
    #[kani::unwind(6)] fn c08_span_soi_4() [] : "Q|SOI holds only at a" { l_soi::<4>(0) }
    #[kani::unwind(6)] fn c08_span_eoi_4() [] : "Q|EOI holds only at b" { l_eoi::<4>(0) }
    #[kani::unwind(6)] fn c08_span_newline_4() [] : "Q|NEWLINE on Span vs slice (CRLF straddling b)" { l_newline::<4>(0) }
    #[kani::unwind(6)] fn c08_span_skipchar1_4() [] : "Q|SkipChar<1> on Span vs slice" { l_skipchar1::<4>(0) }
    #[kani::unwind(6)] fn c08_span_skipchar2_4() [] : "Q|SkipChar<2> on Span vs slice" { l_skipchar2::<4>(0) }
    #[kani::unwind(6)] fn c08_span_skip_bb_4() [] : "Q|Skip<[\"]]\"]> (skip_until) on Span vs slice: needle straddling b must not be found" { l_skip_bb::<4>(0) }
    #[kani::unwind(6)] fn c08_span_skip_eacute_4() [] : "Q|Skip<[\"é\"]> on Span vs slice (multi-byte needle)" { l_skip_eacute::<4>(0) }
    #[kani::unwind(6)] fn c08_span_skip_two_4() [] : "Q|Skip<[\"a\",\"bc\"]> on Span vs slice (two needles)" { l_skip_two::<4>(0) }
    #[kani::unwind(6)] fn c08_pos_str_4() [] : "Q|Str on Position(s,a) == on s[a..]" { l_str::<4>(1) }
    #[kani::unwind(6)] fn c08_pos_soi_4() [] : "Q|SOI on Position(s,a) holds only at a" { l_soi::<4>(1) }
    #[kani::unwind(6)] fn c08_pos_skip_bb_4() [] : "Q|Skip on Position(s,a) vs s[a..]" { l_skip_bb::<4>(1) }
    #[kani::unwind(6)] fn c08_pos_any_4() [] : "Q|ANY on Position(s,a) vs s[a..]" { l_any::<4>(1) }
    #[kani::unwind(7)] fn c08_span_skip_bb_5() [] : "T|Skip<[\"]]\"]> on Span vs slice, UTF-8 5 bytes" { l_skip_bb::<5>(0) }
    #[kani::unwind(7)] fn c08_span_str_5() [] : "T|Str on Span vs slice, UTF-8 5 bytes" { l_str::<5>(0) }
    #[kani::unwind(7)] fn c08_span_insens_5() [] : "T|Insens on Span vs slice, UTF-8 5 bytes" { l_insens::<5>(0) }
    #[kani::unwind(7)] fn c08_span_range_5() [] : "T|CharRange on Span vs slice, UTF-8 5 bytes" { l_range::<5>(0) }
    #[kani::unwind(7)] fn c08_span_newline_5() [] : "T|NEWLINE on Span vs slice, UTF-8 5 bytes" { l_newline::<5>(0) }
    #[kani::unwind(7)] fn c08_span_skipchar2_5() [] : "T|SkipChar<2> on Span vs slice, UTF-8 5 bytes" { l_skipchar2::<5>(0) }
    #[kani::unwind(7)] fn c08_span_skip_two_5() [] : "T|Skip two needles on Span vs slice, UTF-8 5 bytes" { l_skip_two::<5>(0) }
}
