//! C17 — choice, sequence and leaf accessors reflect what was actually matched.
//! Accessor half: values constructed directly (public variants / fields), symbolic variant index and payloads.
//! (Generated in part by a script: one harness per arity.)
use crate::common::*;
use crate::nd;
use crate::refpeg::*;
use crate::rel::*;
use pest_typed::choices::*;
use pest_typed::predefined_node::*;
use pest_typed::sequence::*;
use pest_typed::{TypedNode, Input};

/// Payload type: distinct type per position so that a mix-up of branches cannot type-check by accident
/// only where the library's own signatures allow it.
#[derive(Clone, Debug, PartialEq, Eq, Hash)]
pub struct W<const I: usize>(pub u8);
/// Skipped-item payload.
#[derive(Clone, Debug, PartialEq, Eq, Hash, Default)]
pub struct Sx(pub u8);

// arities 13 and 16 are instantiated here with the macros the generator emits for arity >= 12
pest_typed::choices!(Choice13, choice13, 13, T0, _0, T1, _1, T2, _2, T3, _3, T4, _4, T5, _5, T6, _6, T7, _7, T8, _8, T9, _9, T10, _10, T11, _11, T12, _12,);
pest_typed::choices!(Choice16, choice16, 16, T0, _0, T1, _1, T2, _2, T3, _3, T4, _4, T5, _5, T6, _6, T7, _7, T8, _8, T9, _9, T10, _10, T11, _11, T12, _12, T13, _13, T14, _14, T15, _15,);
pest_typed::seq!(Seq13, 13, T0, 0, T1, 1, T2, 2, T3, 3, T4, 4, T5, 5, T6, 6, T7, 7, T8, 8, T9, 9, T10, 10, T11, 11, T12, 12,);
pest_typed::seq!(Seq16, 16, T0, 0, T1, 1, T2, 2, T3, 3, T4, 4, T5, 5, T6, 6, T7, 7, T8, 8, T9, 9, T10, 10, T11, 11, T12, 12, T13, 13, T14, 14, T15, 15,);

fn choice_2() {
    let sel = nd::u8();
    nd::assume((sel as usize) < 2);
    let v = nd::u8();
    let c: Choice2<W<0>, W<1>> = match sel {
        0 => Choice2::_0(W::<0>(v)),
        1 => Choice2::_1(W::<1>(v)),
        _ => unreachable!(),
    };
    let mut some = 0usize;
    if let Some(x) = c._0() { some += 1; assert!(sel == 0 && x.0 == v, "accessor _0 returned Some for another alternative"); }
    if let Some(x) = c._1() { some += 1; assert!(sel == 1 && x.0 == v, "accessor _1 returned Some for another alternative"); }
    assert!(some == 1, "not exactly one accessor returned Some");
    let (ran, val) = c.if_then(|x| (0u8, x.0)).else_then(|x| (1u8, x.0));
    assert!(ran == sel && val == v, "if_then/else_if/else_then chain ran the closure of another alternative");
    let (ran2, val2) = c.reference::<(u8, u8)>().else_if(|x| (0u8, x.0)).else_then(|x| (1u8, x.0));
    assert!(ran2 == sel && val2 == v, "reference() chain ran the closure of another alternative");
    let (ran3, val3) = c.clone().consume_if_then(|x| (0u8, x.0)).else_then(|x| (1u8, x.0));
    assert!(ran3 == sel && val3 == v, "consuming chain ran the closure of another alternative");
    cover!(sel as usize == 1, "last alternative");
}
fn choice_3() {
    let sel = nd::u8();
    nd::assume((sel as usize) < 3);
    let v = nd::u8();
    let c: Choice3<W<0>, W<1>, W<2>> = match sel {
        0 => Choice3::_0(W::<0>(v)),
        1 => Choice3::_1(W::<1>(v)),
        2 => Choice3::_2(W::<2>(v)),
        _ => unreachable!(),
    };
    let mut some = 0usize;
    if let Some(x) = c._0() { some += 1; assert!(sel == 0 && x.0 == v, "accessor _0 returned Some for another alternative"); }
    if let Some(x) = c._1() { some += 1; assert!(sel == 1 && x.0 == v, "accessor _1 returned Some for another alternative"); }
    if let Some(x) = c._2() { some += 1; assert!(sel == 2 && x.0 == v, "accessor _2 returned Some for another alternative"); }
    assert!(some == 1, "not exactly one accessor returned Some");
    let (ran, val) = c.if_then(|x| (0u8, x.0)).else_if(|x| (1u8, x.0)).else_then(|x| (2u8, x.0));
    assert!(ran == sel && val == v, "if_then/else_if/else_then chain ran the closure of another alternative");
    let (ran2, val2) = c.reference::<(u8, u8)>().else_if(|x| (0u8, x.0)).else_if(|x| (1u8, x.0)).else_then(|x| (2u8, x.0));
    assert!(ran2 == sel && val2 == v, "reference() chain ran the closure of another alternative");
    let (ran3, val3) = c.clone().consume_if_then(|x| (0u8, x.0)).else_if(|x| (1u8, x.0)).else_then(|x| (2u8, x.0));
    assert!(ran3 == sel && val3 == v, "consuming chain ran the closure of another alternative");
    cover!(sel as usize == 2, "last alternative");
}
fn choice_4() {
    let sel = nd::u8();
    nd::assume((sel as usize) < 4);
    let v = nd::u8();
    let c: Choice4<W<0>, W<1>, W<2>, W<3>> = match sel {
        0 => Choice4::_0(W::<0>(v)),
        1 => Choice4::_1(W::<1>(v)),
        2 => Choice4::_2(W::<2>(v)),
        3 => Choice4::_3(W::<3>(v)),
        _ => unreachable!(),
    };
    let mut some = 0usize;
    if let Some(x) = c._0() { some += 1; assert!(sel == 0 && x.0 == v, "accessor _0 returned Some for another alternative"); }
    if let Some(x) = c._1() { some += 1; assert!(sel == 1 && x.0 == v, "accessor _1 returned Some for another alternative"); }
    if let Some(x) = c._2() { some += 1; assert!(sel == 2 && x.0 == v, "accessor _2 returned Some for another alternative"); }
    if let Some(x) = c._3() { some += 1; assert!(sel == 3 && x.0 == v, "accessor _3 returned Some for another alternative"); }
    assert!(some == 1, "not exactly one accessor returned Some");
    let (ran, val) = c.if_then(|x| (0u8, x.0)).else_if(|x| (1u8, x.0)).else_if(|x| (2u8, x.0)).else_then(|x| (3u8, x.0));
    assert!(ran == sel && val == v, "if_then/else_if/else_then chain ran the closure of another alternative");
    let (ran2, val2) = c.reference::<(u8, u8)>().else_if(|x| (0u8, x.0)).else_if(|x| (1u8, x.0)).else_if(|x| (2u8, x.0)).else_then(|x| (3u8, x.0));
    assert!(ran2 == sel && val2 == v, "reference() chain ran the closure of another alternative");
    let (ran3, val3) = c.clone().consume_if_then(|x| (0u8, x.0)).else_if(|x| (1u8, x.0)).else_if(|x| (2u8, x.0)).else_then(|x| (3u8, x.0));
    assert!(ran3 == sel && val3 == v, "consuming chain ran the closure of another alternative");
    cover!(sel as usize == 3, "last alternative");
}
fn choice_5() {
    let sel = nd::u8();
    nd::assume((sel as usize) < 5);
    let v = nd::u8();
    let c: Choice5<W<0>, W<1>, W<2>, W<3>, W<4>> = match sel {
        0 => Choice5::_0(W::<0>(v)),
        1 => Choice5::_1(W::<1>(v)),
        2 => Choice5::_2(W::<2>(v)),
        3 => Choice5::_3(W::<3>(v)),
        4 => Choice5::_4(W::<4>(v)),
        _ => unreachable!(),
    };
    let mut some = 0usize;
    if let Some(x) = c._0() { some += 1; assert!(sel == 0 && x.0 == v, "accessor _0 returned Some for another alternative"); }
    if let Some(x) = c._1() { some += 1; assert!(sel == 1 && x.0 == v, "accessor _1 returned Some for another alternative"); }
    if let Some(x) = c._2() { some += 1; assert!(sel == 2 && x.0 == v, "accessor _2 returned Some for another alternative"); }
    if let Some(x) = c._3() { some += 1; assert!(sel == 3 && x.0 == v, "accessor _3 returned Some for another alternative"); }
    if let Some(x) = c._4() { some += 1; assert!(sel == 4 && x.0 == v, "accessor _4 returned Some for another alternative"); }
    assert!(some == 1, "not exactly one accessor returned Some");
    let (ran, val) = c.if_then(|x| (0u8, x.0)).else_if(|x| (1u8, x.0)).else_if(|x| (2u8, x.0)).else_if(|x| (3u8, x.0)).else_then(|x| (4u8, x.0));
    assert!(ran == sel && val == v, "if_then/else_if/else_then chain ran the closure of another alternative");
    let (ran2, val2) = c.reference::<(u8, u8)>().else_if(|x| (0u8, x.0)).else_if(|x| (1u8, x.0)).else_if(|x| (2u8, x.0)).else_if(|x| (3u8, x.0)).else_then(|x| (4u8, x.0));
    assert!(ran2 == sel && val2 == v, "reference() chain ran the closure of another alternative");
    let (ran3, val3) = c.clone().consume_if_then(|x| (0u8, x.0)).else_if(|x| (1u8, x.0)).else_if(|x| (2u8, x.0)).else_if(|x| (3u8, x.0)).else_then(|x| (4u8, x.0));
    assert!(ran3 == sel && val3 == v, "consuming chain ran the closure of another alternative");
    cover!(sel as usize == 4, "last alternative");
}
fn choice_6() {
    let sel = nd::u8();
    nd::assume((sel as usize) < 6);
    let v = nd::u8();
    let c: Choice6<W<0>, W<1>, W<2>, W<3>, W<4>, W<5>> = match sel {
        0 => Choice6::_0(W::<0>(v)),
        1 => Choice6::_1(W::<1>(v)),
        2 => Choice6::_2(W::<2>(v)),
        3 => Choice6::_3(W::<3>(v)),
        4 => Choice6::_4(W::<4>(v)),
        5 => Choice6::_5(W::<5>(v)),
        _ => unreachable!(),
    };
    let mut some = 0usize;
    if let Some(x) = c._0() { some += 1; assert!(sel == 0 && x.0 == v, "accessor _0 returned Some for another alternative"); }
    if let Some(x) = c._1() { some += 1; assert!(sel == 1 && x.0 == v, "accessor _1 returned Some for another alternative"); }
    if let Some(x) = c._2() { some += 1; assert!(sel == 2 && x.0 == v, "accessor _2 returned Some for another alternative"); }
    if let Some(x) = c._3() { some += 1; assert!(sel == 3 && x.0 == v, "accessor _3 returned Some for another alternative"); }
    if let Some(x) = c._4() { some += 1; assert!(sel == 4 && x.0 == v, "accessor _4 returned Some for another alternative"); }
    if let Some(x) = c._5() { some += 1; assert!(sel == 5 && x.0 == v, "accessor _5 returned Some for another alternative"); }
    assert!(some == 1, "not exactly one accessor returned Some");
    let (ran, val) = c.if_then(|x| (0u8, x.0)).else_if(|x| (1u8, x.0)).else_if(|x| (2u8, x.0)).else_if(|x| (3u8, x.0)).else_if(|x| (4u8, x.0)).else_then(|x| (5u8, x.0));
    assert!(ran == sel && val == v, "if_then/else_if/else_then chain ran the closure of another alternative");
    let (ran2, val2) = c.reference::<(u8, u8)>().else_if(|x| (0u8, x.0)).else_if(|x| (1u8, x.0)).else_if(|x| (2u8, x.0)).else_if(|x| (3u8, x.0)).else_if(|x| (4u8, x.0)).else_then(|x| (5u8, x.0));
    assert!(ran2 == sel && val2 == v, "reference() chain ran the closure of another alternative");
    let (ran3, val3) = c.clone().consume_if_then(|x| (0u8, x.0)).else_if(|x| (1u8, x.0)).else_if(|x| (2u8, x.0)).else_if(|x| (3u8, x.0)).else_if(|x| (4u8, x.0)).else_then(|x| (5u8, x.0));
    assert!(ran3 == sel && val3 == v, "consuming chain ran the closure of another alternative");
    cover!(sel as usize == 5, "last alternative");
}
fn choice_7() {
    let sel = nd::u8();
    nd::assume((sel as usize) < 7);
    let v = nd::u8();
    let c: Choice7<W<0>, W<1>, W<2>, W<3>, W<4>, W<5>, W<6>> = match sel {
        0 => Choice7::_0(W::<0>(v)),
        1 => Choice7::_1(W::<1>(v)),
        2 => Choice7::_2(W::<2>(v)),
        3 => Choice7::_3(W::<3>(v)),
        4 => Choice7::_4(W::<4>(v)),
        5 => Choice7::_5(W::<5>(v)),
        6 => Choice7::_6(W::<6>(v)),
        _ => unreachable!(),
    };
    let mut some = 0usize;
    if let Some(x) = c._0() { some += 1; assert!(sel == 0 && x.0 == v, "accessor _0 returned Some for another alternative"); }
    if let Some(x) = c._1() { some += 1; assert!(sel == 1 && x.0 == v, "accessor _1 returned Some for another alternative"); }
    if let Some(x) = c._2() { some += 1; assert!(sel == 2 && x.0 == v, "accessor _2 returned Some for another alternative"); }
    if let Some(x) = c._3() { some += 1; assert!(sel == 3 && x.0 == v, "accessor _3 returned Some for another alternative"); }
    if let Some(x) = c._4() { some += 1; assert!(sel == 4 && x.0 == v, "accessor _4 returned Some for another alternative"); }
    if let Some(x) = c._5() { some += 1; assert!(sel == 5 && x.0 == v, "accessor _5 returned Some for another alternative"); }
    if let Some(x) = c._6() { some += 1; assert!(sel == 6 && x.0 == v, "accessor _6 returned Some for another alternative"); }
    assert!(some == 1, "not exactly one accessor returned Some");
    let (ran, val) = c.if_then(|x| (0u8, x.0)).else_if(|x| (1u8, x.0)).else_if(|x| (2u8, x.0)).else_if(|x| (3u8, x.0)).else_if(|x| (4u8, x.0)).else_if(|x| (5u8, x.0)).else_then(|x| (6u8, x.0));
    assert!(ran == sel && val == v, "if_then/else_if/else_then chain ran the closure of another alternative");
    let (ran2, val2) = c.reference::<(u8, u8)>().else_if(|x| (0u8, x.0)).else_if(|x| (1u8, x.0)).else_if(|x| (2u8, x.0)).else_if(|x| (3u8, x.0)).else_if(|x| (4u8, x.0)).else_if(|x| (5u8, x.0)).else_then(|x| (6u8, x.0));
    assert!(ran2 == sel && val2 == v, "reference() chain ran the closure of another alternative");
    let (ran3, val3) = c.clone().consume_if_then(|x| (0u8, x.0)).else_if(|x| (1u8, x.0)).else_if(|x| (2u8, x.0)).else_if(|x| (3u8, x.0)).else_if(|x| (4u8, x.0)).else_if(|x| (5u8, x.0)).else_then(|x| (6u8, x.0));
    assert!(ran3 == sel && val3 == v, "consuming chain ran the closure of another alternative");
    cover!(sel as usize == 6, "last alternative");
}
fn choice_8() {
    let sel = nd::u8();
    nd::assume((sel as usize) < 8);
    let v = nd::u8();
    let c: Choice8<W<0>, W<1>, W<2>, W<3>, W<4>, W<5>, W<6>, W<7>> = match sel {
        0 => Choice8::_0(W::<0>(v)),
        1 => Choice8::_1(W::<1>(v)),
        2 => Choice8::_2(W::<2>(v)),
        3 => Choice8::_3(W::<3>(v)),
        4 => Choice8::_4(W::<4>(v)),
        5 => Choice8::_5(W::<5>(v)),
        6 => Choice8::_6(W::<6>(v)),
        7 => Choice8::_7(W::<7>(v)),
        _ => unreachable!(),
    };
    let mut some = 0usize;
    if let Some(x) = c._0() { some += 1; assert!(sel == 0 && x.0 == v, "accessor _0 returned Some for another alternative"); }
    if let Some(x) = c._1() { some += 1; assert!(sel == 1 && x.0 == v, "accessor _1 returned Some for another alternative"); }
    if let Some(x) = c._2() { some += 1; assert!(sel == 2 && x.0 == v, "accessor _2 returned Some for another alternative"); }
    if let Some(x) = c._3() { some += 1; assert!(sel == 3 && x.0 == v, "accessor _3 returned Some for another alternative"); }
    if let Some(x) = c._4() { some += 1; assert!(sel == 4 && x.0 == v, "accessor _4 returned Some for another alternative"); }
    if let Some(x) = c._5() { some += 1; assert!(sel == 5 && x.0 == v, "accessor _5 returned Some for another alternative"); }
    if let Some(x) = c._6() { some += 1; assert!(sel == 6 && x.0 == v, "accessor _6 returned Some for another alternative"); }
    if let Some(x) = c._7() { some += 1; assert!(sel == 7 && x.0 == v, "accessor _7 returned Some for another alternative"); }
    assert!(some == 1, "not exactly one accessor returned Some");
    let (ran, val) = c.if_then(|x| (0u8, x.0)).else_if(|x| (1u8, x.0)).else_if(|x| (2u8, x.0)).else_if(|x| (3u8, x.0)).else_if(|x| (4u8, x.0)).else_if(|x| (5u8, x.0)).else_if(|x| (6u8, x.0)).else_then(|x| (7u8, x.0));
    assert!(ran == sel && val == v, "if_then/else_if/else_then chain ran the closure of another alternative");
    let (ran2, val2) = c.reference::<(u8, u8)>().else_if(|x| (0u8, x.0)).else_if(|x| (1u8, x.0)).else_if(|x| (2u8, x.0)).else_if(|x| (3u8, x.0)).else_if(|x| (4u8, x.0)).else_if(|x| (5u8, x.0)).else_if(|x| (6u8, x.0)).else_then(|x| (7u8, x.0));
    assert!(ran2 == sel && val2 == v, "reference() chain ran the closure of another alternative");
    let (ran3, val3) = c.clone().consume_if_then(|x| (0u8, x.0)).else_if(|x| (1u8, x.0)).else_if(|x| (2u8, x.0)).else_if(|x| (3u8, x.0)).else_if(|x| (4u8, x.0)).else_if(|x| (5u8, x.0)).else_if(|x| (6u8, x.0)).else_then(|x| (7u8, x.0));
    assert!(ran3 == sel && val3 == v, "consuming chain ran the closure of another alternative");
    cover!(sel as usize == 7, "last alternative");
}
fn choice_9() {
    let sel = nd::u8();
    nd::assume((sel as usize) < 9);
    let v = nd::u8();
    let c: Choice9<W<0>, W<1>, W<2>, W<3>, W<4>, W<5>, W<6>, W<7>, W<8>> = match sel {
        0 => Choice9::_0(W::<0>(v)),
        1 => Choice9::_1(W::<1>(v)),
        2 => Choice9::_2(W::<2>(v)),
        3 => Choice9::_3(W::<3>(v)),
        4 => Choice9::_4(W::<4>(v)),
        5 => Choice9::_5(W::<5>(v)),
        6 => Choice9::_6(W::<6>(v)),
        7 => Choice9::_7(W::<7>(v)),
        8 => Choice9::_8(W::<8>(v)),
        _ => unreachable!(),
    };
    let mut some = 0usize;
    if let Some(x) = c._0() { some += 1; assert!(sel == 0 && x.0 == v, "accessor _0 returned Some for another alternative"); }
    if let Some(x) = c._1() { some += 1; assert!(sel == 1 && x.0 == v, "accessor _1 returned Some for another alternative"); }
    if let Some(x) = c._2() { some += 1; assert!(sel == 2 && x.0 == v, "accessor _2 returned Some for another alternative"); }
    if let Some(x) = c._3() { some += 1; assert!(sel == 3 && x.0 == v, "accessor _3 returned Some for another alternative"); }
    if let Some(x) = c._4() { some += 1; assert!(sel == 4 && x.0 == v, "accessor _4 returned Some for another alternative"); }
    if let Some(x) = c._5() { some += 1; assert!(sel == 5 && x.0 == v, "accessor _5 returned Some for another alternative"); }
    if let Some(x) = c._6() { some += 1; assert!(sel == 6 && x.0 == v, "accessor _6 returned Some for another alternative"); }
    if let Some(x) = c._7() { some += 1; assert!(sel == 7 && x.0 == v, "accessor _7 returned Some for another alternative"); }
    if let Some(x) = c._8() { some += 1; assert!(sel == 8 && x.0 == v, "accessor _8 returned Some for another alternative"); }
    assert!(some == 1, "not exactly one accessor returned Some");
    let (ran, val) = c.if_then(|x| (0u8, x.0)).else_if(|x| (1u8, x.0)).else_if(|x| (2u8, x.0)).else_if(|x| (3u8, x.0)).else_if(|x| (4u8, x.0)).else_if(|x| (5u8, x.0)).else_if(|x| (6u8, x.0)).else_if(|x| (7u8, x.0)).else_then(|x| (8u8, x.0));
    assert!(ran == sel && val == v, "if_then/else_if/else_then chain ran the closure of another alternative");
    let (ran2, val2) = c.reference::<(u8, u8)>().else_if(|x| (0u8, x.0)).else_if(|x| (1u8, x.0)).else_if(|x| (2u8, x.0)).else_if(|x| (3u8, x.0)).else_if(|x| (4u8, x.0)).else_if(|x| (5u8, x.0)).else_if(|x| (6u8, x.0)).else_if(|x| (7u8, x.0)).else_then(|x| (8u8, x.0));
    assert!(ran2 == sel && val2 == v, "reference() chain ran the closure of another alternative");
    let (ran3, val3) = c.clone().consume_if_then(|x| (0u8, x.0)).else_if(|x| (1u8, x.0)).else_if(|x| (2u8, x.0)).else_if(|x| (3u8, x.0)).else_if(|x| (4u8, x.0)).else_if(|x| (5u8, x.0)).else_if(|x| (6u8, x.0)).else_if(|x| (7u8, x.0)).else_then(|x| (8u8, x.0));
    assert!(ran3 == sel && val3 == v, "consuming chain ran the closure of another alternative");
    cover!(sel as usize == 8, "last alternative");
}
fn choice_10() {
    let sel = nd::u8();
    nd::assume((sel as usize) < 10);
    let v = nd::u8();
    let c: Choice10<W<0>, W<1>, W<2>, W<3>, W<4>, W<5>, W<6>, W<7>, W<8>, W<9>> = match sel {
        0 => Choice10::_0(W::<0>(v)),
        1 => Choice10::_1(W::<1>(v)),
        2 => Choice10::_2(W::<2>(v)),
        3 => Choice10::_3(W::<3>(v)),
        4 => Choice10::_4(W::<4>(v)),
        5 => Choice10::_5(W::<5>(v)),
        6 => Choice10::_6(W::<6>(v)),
        7 => Choice10::_7(W::<7>(v)),
        8 => Choice10::_8(W::<8>(v)),
        9 => Choice10::_9(W::<9>(v)),
        _ => unreachable!(),
    };
    let mut some = 0usize;
    if let Some(x) = c._0() { some += 1; assert!(sel == 0 && x.0 == v, "accessor _0 returned Some for another alternative"); }
    if let Some(x) = c._1() { some += 1; assert!(sel == 1 && x.0 == v, "accessor _1 returned Some for another alternative"); }
    if let Some(x) = c._2() { some += 1; assert!(sel == 2 && x.0 == v, "accessor _2 returned Some for another alternative"); }
    if let Some(x) = c._3() { some += 1; assert!(sel == 3 && x.0 == v, "accessor _3 returned Some for another alternative"); }
    if let Some(x) = c._4() { some += 1; assert!(sel == 4 && x.0 == v, "accessor _4 returned Some for another alternative"); }
    if let Some(x) = c._5() { some += 1; assert!(sel == 5 && x.0 == v, "accessor _5 returned Some for another alternative"); }
    if let Some(x) = c._6() { some += 1; assert!(sel == 6 && x.0 == v, "accessor _6 returned Some for another alternative"); }
    if let Some(x) = c._7() { some += 1; assert!(sel == 7 && x.0 == v, "accessor _7 returned Some for another alternative"); }
    if let Some(x) = c._8() { some += 1; assert!(sel == 8 && x.0 == v, "accessor _8 returned Some for another alternative"); }
    if let Some(x) = c._9() { some += 1; assert!(sel == 9 && x.0 == v, "accessor _9 returned Some for another alternative"); }
    assert!(some == 1, "not exactly one accessor returned Some");
    let (ran, val) = c.if_then(|x| (0u8, x.0)).else_if(|x| (1u8, x.0)).else_if(|x| (2u8, x.0)).else_if(|x| (3u8, x.0)).else_if(|x| (4u8, x.0)).else_if(|x| (5u8, x.0)).else_if(|x| (6u8, x.0)).else_if(|x| (7u8, x.0)).else_if(|x| (8u8, x.0)).else_then(|x| (9u8, x.0));
    assert!(ran == sel && val == v, "if_then/else_if/else_then chain ran the closure of another alternative");
    let (ran2, val2) = c.reference::<(u8, u8)>().else_if(|x| (0u8, x.0)).else_if(|x| (1u8, x.0)).else_if(|x| (2u8, x.0)).else_if(|x| (3u8, x.0)).else_if(|x| (4u8, x.0)).else_if(|x| (5u8, x.0)).else_if(|x| (6u8, x.0)).else_if(|x| (7u8, x.0)).else_if(|x| (8u8, x.0)).else_then(|x| (9u8, x.0));
    assert!(ran2 == sel && val2 == v, "reference() chain ran the closure of another alternative");
    let (ran3, val3) = c.clone().consume_if_then(|x| (0u8, x.0)).else_if(|x| (1u8, x.0)).else_if(|x| (2u8, x.0)).else_if(|x| (3u8, x.0)).else_if(|x| (4u8, x.0)).else_if(|x| (5u8, x.0)).else_if(|x| (6u8, x.0)).else_if(|x| (7u8, x.0)).else_if(|x| (8u8, x.0)).else_then(|x| (9u8, x.0));
    assert!(ran3 == sel && val3 == v, "consuming chain ran the closure of another alternative");
    cover!(sel as usize == 9, "last alternative");
}
fn choice_11() {
    let sel = nd::u8();
    nd::assume((sel as usize) < 11);
    let v = nd::u8();
    let c: Choice11<W<0>, W<1>, W<2>, W<3>, W<4>, W<5>, W<6>, W<7>, W<8>, W<9>, W<10>> = match sel {
        0 => Choice11::_0(W::<0>(v)),
        1 => Choice11::_1(W::<1>(v)),
        2 => Choice11::_2(W::<2>(v)),
        3 => Choice11::_3(W::<3>(v)),
        4 => Choice11::_4(W::<4>(v)),
        5 => Choice11::_5(W::<5>(v)),
        6 => Choice11::_6(W::<6>(v)),
        7 => Choice11::_7(W::<7>(v)),
        8 => Choice11::_8(W::<8>(v)),
        9 => Choice11::_9(W::<9>(v)),
        10 => Choice11::_10(W::<10>(v)),
        _ => unreachable!(),
    };
    let mut some = 0usize;
    if let Some(x) = c._0() { some += 1; assert!(sel == 0 && x.0 == v, "accessor _0 returned Some for another alternative"); }
    if let Some(x) = c._1() { some += 1; assert!(sel == 1 && x.0 == v, "accessor _1 returned Some for another alternative"); }
    if let Some(x) = c._2() { some += 1; assert!(sel == 2 && x.0 == v, "accessor _2 returned Some for another alternative"); }
    if let Some(x) = c._3() { some += 1; assert!(sel == 3 && x.0 == v, "accessor _3 returned Some for another alternative"); }
    if let Some(x) = c._4() { some += 1; assert!(sel == 4 && x.0 == v, "accessor _4 returned Some for another alternative"); }
    if let Some(x) = c._5() { some += 1; assert!(sel == 5 && x.0 == v, "accessor _5 returned Some for another alternative"); }
    if let Some(x) = c._6() { some += 1; assert!(sel == 6 && x.0 == v, "accessor _6 returned Some for another alternative"); }
    if let Some(x) = c._7() { some += 1; assert!(sel == 7 && x.0 == v, "accessor _7 returned Some for another alternative"); }
    if let Some(x) = c._8() { some += 1; assert!(sel == 8 && x.0 == v, "accessor _8 returned Some for another alternative"); }
    if let Some(x) = c._9() { some += 1; assert!(sel == 9 && x.0 == v, "accessor _9 returned Some for another alternative"); }
    if let Some(x) = c._10() { some += 1; assert!(sel == 10 && x.0 == v, "accessor _10 returned Some for another alternative"); }
    assert!(some == 1, "not exactly one accessor returned Some");
    let (ran, val) = c.if_then(|x| (0u8, x.0)).else_if(|x| (1u8, x.0)).else_if(|x| (2u8, x.0)).else_if(|x| (3u8, x.0)).else_if(|x| (4u8, x.0)).else_if(|x| (5u8, x.0)).else_if(|x| (6u8, x.0)).else_if(|x| (7u8, x.0)).else_if(|x| (8u8, x.0)).else_if(|x| (9u8, x.0)).else_then(|x| (10u8, x.0));
    assert!(ran == sel && val == v, "if_then/else_if/else_then chain ran the closure of another alternative");
    let (ran2, val2) = c.reference::<(u8, u8)>().else_if(|x| (0u8, x.0)).else_if(|x| (1u8, x.0)).else_if(|x| (2u8, x.0)).else_if(|x| (3u8, x.0)).else_if(|x| (4u8, x.0)).else_if(|x| (5u8, x.0)).else_if(|x| (6u8, x.0)).else_if(|x| (7u8, x.0)).else_if(|x| (8u8, x.0)).else_if(|x| (9u8, x.0)).else_then(|x| (10u8, x.0));
    assert!(ran2 == sel && val2 == v, "reference() chain ran the closure of another alternative");
    let (ran3, val3) = c.clone().consume_if_then(|x| (0u8, x.0)).else_if(|x| (1u8, x.0)).else_if(|x| (2u8, x.0)).else_if(|x| (3u8, x.0)).else_if(|x| (4u8, x.0)).else_if(|x| (5u8, x.0)).else_if(|x| (6u8, x.0)).else_if(|x| (7u8, x.0)).else_if(|x| (8u8, x.0)).else_if(|x| (9u8, x.0)).else_then(|x| (10u8, x.0));
    assert!(ran3 == sel && val3 == v, "consuming chain ran the closure of another alternative");
    cover!(sel as usize == 10, "last alternative");
}
fn choice_12() {
    let sel = nd::u8();
    nd::assume((sel as usize) < 12);
    let v = nd::u8();
    let c: Choice12<W<0>, W<1>, W<2>, W<3>, W<4>, W<5>, W<6>, W<7>, W<8>, W<9>, W<10>, W<11>> = match sel {
        0 => Choice12::_0(W::<0>(v)),
        1 => Choice12::_1(W::<1>(v)),
        2 => Choice12::_2(W::<2>(v)),
        3 => Choice12::_3(W::<3>(v)),
        4 => Choice12::_4(W::<4>(v)),
        5 => Choice12::_5(W::<5>(v)),
        6 => Choice12::_6(W::<6>(v)),
        7 => Choice12::_7(W::<7>(v)),
        8 => Choice12::_8(W::<8>(v)),
        9 => Choice12::_9(W::<9>(v)),
        10 => Choice12::_10(W::<10>(v)),
        11 => Choice12::_11(W::<11>(v)),
        _ => unreachable!(),
    };
    let mut some = 0usize;
    if let Some(x) = c._0() { some += 1; assert!(sel == 0 && x.0 == v, "accessor _0 returned Some for another alternative"); }
    if let Some(x) = c._1() { some += 1; assert!(sel == 1 && x.0 == v, "accessor _1 returned Some for another alternative"); }
    if let Some(x) = c._2() { some += 1; assert!(sel == 2 && x.0 == v, "accessor _2 returned Some for another alternative"); }
    if let Some(x) = c._3() { some += 1; assert!(sel == 3 && x.0 == v, "accessor _3 returned Some for another alternative"); }
    if let Some(x) = c._4() { some += 1; assert!(sel == 4 && x.0 == v, "accessor _4 returned Some for another alternative"); }
    if let Some(x) = c._5() { some += 1; assert!(sel == 5 && x.0 == v, "accessor _5 returned Some for another alternative"); }
    if let Some(x) = c._6() { some += 1; assert!(sel == 6 && x.0 == v, "accessor _6 returned Some for another alternative"); }
    if let Some(x) = c._7() { some += 1; assert!(sel == 7 && x.0 == v, "accessor _7 returned Some for another alternative"); }
    if let Some(x) = c._8() { some += 1; assert!(sel == 8 && x.0 == v, "accessor _8 returned Some for another alternative"); }
    if let Some(x) = c._9() { some += 1; assert!(sel == 9 && x.0 == v, "accessor _9 returned Some for another alternative"); }
    if let Some(x) = c._10() { some += 1; assert!(sel == 10 && x.0 == v, "accessor _10 returned Some for another alternative"); }
    if let Some(x) = c._11() { some += 1; assert!(sel == 11 && x.0 == v, "accessor _11 returned Some for another alternative"); }
    assert!(some == 1, "not exactly one accessor returned Some");
    let (ran, val) = c.if_then(|x| (0u8, x.0)).else_if(|x| (1u8, x.0)).else_if(|x| (2u8, x.0)).else_if(|x| (3u8, x.0)).else_if(|x| (4u8, x.0)).else_if(|x| (5u8, x.0)).else_if(|x| (6u8, x.0)).else_if(|x| (7u8, x.0)).else_if(|x| (8u8, x.0)).else_if(|x| (9u8, x.0)).else_if(|x| (10u8, x.0)).else_then(|x| (11u8, x.0));
    assert!(ran == sel && val == v, "if_then/else_if/else_then chain ran the closure of another alternative");
    let (ran2, val2) = c.reference::<(u8, u8)>().else_if(|x| (0u8, x.0)).else_if(|x| (1u8, x.0)).else_if(|x| (2u8, x.0)).else_if(|x| (3u8, x.0)).else_if(|x| (4u8, x.0)).else_if(|x| (5u8, x.0)).else_if(|x| (6u8, x.0)).else_if(|x| (7u8, x.0)).else_if(|x| (8u8, x.0)).else_if(|x| (9u8, x.0)).else_if(|x| (10u8, x.0)).else_then(|x| (11u8, x.0));
    assert!(ran2 == sel && val2 == v, "reference() chain ran the closure of another alternative");
    let (ran3, val3) = c.clone().consume_if_then(|x| (0u8, x.0)).else_if(|x| (1u8, x.0)).else_if(|x| (2u8, x.0)).else_if(|x| (3u8, x.0)).else_if(|x| (4u8, x.0)).else_if(|x| (5u8, x.0)).else_if(|x| (6u8, x.0)).else_if(|x| (7u8, x.0)).else_if(|x| (8u8, x.0)).else_if(|x| (9u8, x.0)).else_if(|x| (10u8, x.0)).else_then(|x| (11u8, x.0));
    assert!(ran3 == sel && val3 == v, "consuming chain ran the closure of another alternative");
    cover!(sel as usize == 11, "last alternative");
}
fn choice_13() {
    let sel = nd::u8();
    nd::assume((sel as usize) < 13);
    let v = nd::u8();
    let c: Choice13<W<0>, W<1>, W<2>, W<3>, W<4>, W<5>, W<6>, W<7>, W<8>, W<9>, W<10>, W<11>, W<12>> = match sel {
        0 => Choice13::_0(W::<0>(v)),
        1 => Choice13::_1(W::<1>(v)),
        2 => Choice13::_2(W::<2>(v)),
        3 => Choice13::_3(W::<3>(v)),
        4 => Choice13::_4(W::<4>(v)),
        5 => Choice13::_5(W::<5>(v)),
        6 => Choice13::_6(W::<6>(v)),
        7 => Choice13::_7(W::<7>(v)),
        8 => Choice13::_8(W::<8>(v)),
        9 => Choice13::_9(W::<9>(v)),
        10 => Choice13::_10(W::<10>(v)),
        11 => Choice13::_11(W::<11>(v)),
        12 => Choice13::_12(W::<12>(v)),
        _ => unreachable!(),
    };
    let mut some = 0usize;
    if let Some(x) = c._0() { some += 1; assert!(sel == 0 && x.0 == v, "accessor _0 returned Some for another alternative"); }
    if let Some(x) = c._1() { some += 1; assert!(sel == 1 && x.0 == v, "accessor _1 returned Some for another alternative"); }
    if let Some(x) = c._2() { some += 1; assert!(sel == 2 && x.0 == v, "accessor _2 returned Some for another alternative"); }
    if let Some(x) = c._3() { some += 1; assert!(sel == 3 && x.0 == v, "accessor _3 returned Some for another alternative"); }
    if let Some(x) = c._4() { some += 1; assert!(sel == 4 && x.0 == v, "accessor _4 returned Some for another alternative"); }
    if let Some(x) = c._5() { some += 1; assert!(sel == 5 && x.0 == v, "accessor _5 returned Some for another alternative"); }
    if let Some(x) = c._6() { some += 1; assert!(sel == 6 && x.0 == v, "accessor _6 returned Some for another alternative"); }
    if let Some(x) = c._7() { some += 1; assert!(sel == 7 && x.0 == v, "accessor _7 returned Some for another alternative"); }
    if let Some(x) = c._8() { some += 1; assert!(sel == 8 && x.0 == v, "accessor _8 returned Some for another alternative"); }
    if let Some(x) = c._9() { some += 1; assert!(sel == 9 && x.0 == v, "accessor _9 returned Some for another alternative"); }
    if let Some(x) = c._10() { some += 1; assert!(sel == 10 && x.0 == v, "accessor _10 returned Some for another alternative"); }
    if let Some(x) = c._11() { some += 1; assert!(sel == 11 && x.0 == v, "accessor _11 returned Some for another alternative"); }
    if let Some(x) = c._12() { some += 1; assert!(sel == 12 && x.0 == v, "accessor _12 returned Some for another alternative"); }
    assert!(some == 1, "not exactly one accessor returned Some");
    let (ran, val) = c.if_then(|x| (0u8, x.0)).else_if(|x| (1u8, x.0)).else_if(|x| (2u8, x.0)).else_if(|x| (3u8, x.0)).else_if(|x| (4u8, x.0)).else_if(|x| (5u8, x.0)).else_if(|x| (6u8, x.0)).else_if(|x| (7u8, x.0)).else_if(|x| (8u8, x.0)).else_if(|x| (9u8, x.0)).else_if(|x| (10u8, x.0)).else_if(|x| (11u8, x.0)).else_then(|x| (12u8, x.0));
    assert!(ran == sel && val == v, "if_then/else_if/else_then chain ran the closure of another alternative");
    let (ran2, val2) = c.reference::<(u8, u8)>().else_if(|x| (0u8, x.0)).else_if(|x| (1u8, x.0)).else_if(|x| (2u8, x.0)).else_if(|x| (3u8, x.0)).else_if(|x| (4u8, x.0)).else_if(|x| (5u8, x.0)).else_if(|x| (6u8, x.0)).else_if(|x| (7u8, x.0)).else_if(|x| (8u8, x.0)).else_if(|x| (9u8, x.0)).else_if(|x| (10u8, x.0)).else_if(|x| (11u8, x.0)).else_then(|x| (12u8, x.0));
    assert!(ran2 == sel && val2 == v, "reference() chain ran the closure of another alternative");
    let (ran3, val3) = c.clone().consume_if_then(|x| (0u8, x.0)).else_if(|x| (1u8, x.0)).else_if(|x| (2u8, x.0)).else_if(|x| (3u8, x.0)).else_if(|x| (4u8, x.0)).else_if(|x| (5u8, x.0)).else_if(|x| (6u8, x.0)).else_if(|x| (7u8, x.0)).else_if(|x| (8u8, x.0)).else_if(|x| (9u8, x.0)).else_if(|x| (10u8, x.0)).else_if(|x| (11u8, x.0)).else_then(|x| (12u8, x.0));
    assert!(ran3 == sel && val3 == v, "consuming chain ran the closure of another alternative");
    cover!(sel as usize == 12, "last alternative");
}
fn choice_16() {
    let sel = nd::u8();
    nd::assume((sel as usize) < 16);
    let v = nd::u8();
    let c: Choice16<W<0>, W<1>, W<2>, W<3>, W<4>, W<5>, W<6>, W<7>, W<8>, W<9>, W<10>, W<11>, W<12>, W<13>, W<14>, W<15>> = match sel {
        0 => Choice16::_0(W::<0>(v)),
        1 => Choice16::_1(W::<1>(v)),
        2 => Choice16::_2(W::<2>(v)),
        3 => Choice16::_3(W::<3>(v)),
        4 => Choice16::_4(W::<4>(v)),
        5 => Choice16::_5(W::<5>(v)),
        6 => Choice16::_6(W::<6>(v)),
        7 => Choice16::_7(W::<7>(v)),
        8 => Choice16::_8(W::<8>(v)),
        9 => Choice16::_9(W::<9>(v)),
        10 => Choice16::_10(W::<10>(v)),
        11 => Choice16::_11(W::<11>(v)),
        12 => Choice16::_12(W::<12>(v)),
        13 => Choice16::_13(W::<13>(v)),
        14 => Choice16::_14(W::<14>(v)),
        15 => Choice16::_15(W::<15>(v)),
        _ => unreachable!(),
    };
    let mut some = 0usize;
    if let Some(x) = c._0() { some += 1; assert!(sel == 0 && x.0 == v, "accessor _0 returned Some for another alternative"); }
    if let Some(x) = c._1() { some += 1; assert!(sel == 1 && x.0 == v, "accessor _1 returned Some for another alternative"); }
    if let Some(x) = c._2() { some += 1; assert!(sel == 2 && x.0 == v, "accessor _2 returned Some for another alternative"); }
    if let Some(x) = c._3() { some += 1; assert!(sel == 3 && x.0 == v, "accessor _3 returned Some for another alternative"); }
    if let Some(x) = c._4() { some += 1; assert!(sel == 4 && x.0 == v, "accessor _4 returned Some for another alternative"); }
    if let Some(x) = c._5() { some += 1; assert!(sel == 5 && x.0 == v, "accessor _5 returned Some for another alternative"); }
    if let Some(x) = c._6() { some += 1; assert!(sel == 6 && x.0 == v, "accessor _6 returned Some for another alternative"); }
    if let Some(x) = c._7() { some += 1; assert!(sel == 7 && x.0 == v, "accessor _7 returned Some for another alternative"); }
    if let Some(x) = c._8() { some += 1; assert!(sel == 8 && x.0 == v, "accessor _8 returned Some for another alternative"); }
    if let Some(x) = c._9() { some += 1; assert!(sel == 9 && x.0 == v, "accessor _9 returned Some for another alternative"); }
    if let Some(x) = c._10() { some += 1; assert!(sel == 10 && x.0 == v, "accessor _10 returned Some for another alternative"); }
    if let Some(x) = c._11() { some += 1; assert!(sel == 11 && x.0 == v, "accessor _11 returned Some for another alternative"); }
    if let Some(x) = c._12() { some += 1; assert!(sel == 12 && x.0 == v, "accessor _12 returned Some for another alternative"); }
    if let Some(x) = c._13() { some += 1; assert!(sel == 13 && x.0 == v, "accessor _13 returned Some for another alternative"); }
    if let Some(x) = c._14() { some += 1; assert!(sel == 14 && x.0 == v, "accessor _14 returned Some for another alternative"); }
    if let Some(x) = c._15() { some += 1; assert!(sel == 15 && x.0 == v, "accessor _15 returned Some for another alternative"); }
    assert!(some == 1, "not exactly one accessor returned Some");
    let (ran, val) = c.if_then(|x| (0u8, x.0)).else_if(|x| (1u8, x.0)).else_if(|x| (2u8, x.0)).else_if(|x| (3u8, x.0)).else_if(|x| (4u8, x.0)).else_if(|x| (5u8, x.0)).else_if(|x| (6u8, x.0)).else_if(|x| (7u8, x.0)).else_if(|x| (8u8, x.0)).else_if(|x| (9u8, x.0)).else_if(|x| (10u8, x.0)).else_if(|x| (11u8, x.0)).else_if(|x| (12u8, x.0)).else_if(|x| (13u8, x.0)).else_if(|x| (14u8, x.0)).else_then(|x| (15u8, x.0));
    assert!(ran == sel && val == v, "if_then/else_if/else_then chain ran the closure of another alternative");
    let (ran2, val2) = c.reference::<(u8, u8)>().else_if(|x| (0u8, x.0)).else_if(|x| (1u8, x.0)).else_if(|x| (2u8, x.0)).else_if(|x| (3u8, x.0)).else_if(|x| (4u8, x.0)).else_if(|x| (5u8, x.0)).else_if(|x| (6u8, x.0)).else_if(|x| (7u8, x.0)).else_if(|x| (8u8, x.0)).else_if(|x| (9u8, x.0)).else_if(|x| (10u8, x.0)).else_if(|x| (11u8, x.0)).else_if(|x| (12u8, x.0)).else_if(|x| (13u8, x.0)).else_if(|x| (14u8, x.0)).else_then(|x| (15u8, x.0));
    assert!(ran2 == sel && val2 == v, "reference() chain ran the closure of another alternative");
    let (ran3, val3) = c.clone().consume_if_then(|x| (0u8, x.0)).else_if(|x| (1u8, x.0)).else_if(|x| (2u8, x.0)).else_if(|x| (3u8, x.0)).else_if(|x| (4u8, x.0)).else_if(|x| (5u8, x.0)).else_if(|x| (6u8, x.0)).else_if(|x| (7u8, x.0)).else_if(|x| (8u8, x.0)).else_if(|x| (9u8, x.0)).else_if(|x| (10u8, x.0)).else_if(|x| (11u8, x.0)).else_if(|x| (12u8, x.0)).else_if(|x| (13u8, x.0)).else_if(|x| (14u8, x.0)).else_then(|x| (15u8, x.0));
    assert!(ran3 == sel && val3 == v, "consuming chain ran the closure of another alternative");
    cover!(sel as usize == 15, "last alternative");
}
fn seq_2() {
    let v0 = nd::u8(); let s0 = nd::u8();
    let v1 = nd::u8(); let s1 = nd::u8();
    let q = Seq2::from((Skipped::<W<0>, Sx, 1> { skipped: [Sx(s0)], matched: W::<0>(v0) }, Skipped::<W<1>, Sx, 1> { skipped: [Sx(s1)], matched: W::<1>(v1) }));
    let m = q.get_matched();
    assert!(m.0.0 == v0, "get_matched element 0 is not the 0-th element");
    assert!(m.1.0 == v1, "get_matched element 1 is not the 1-th element");
    let r = q.as_ref();
    assert!(r.0.0 == v0);
    assert!(r.1.0 == v1);
    let a = q.get_all();
    assert!(a.0.matched.0 == v0 && a.0.skipped[0].0 == s0, "get_all element 0 does not pair the element with the text skipped before it");
    assert!(a.1.matched.0 == v1 && a.1.skipped[0].0 == s1, "get_all element 1 does not pair the element with the text skipped before it");
    let d = &q.content;
    assert!(d.0.matched.0 == v0);
    assert!(d.1.matched.0 == v1);
    let im = q.clone().into_matched();
    assert!(im.0.0 == v0, "into_matched element 0 out of order");
    assert!(im.1.0 == v1, "into_matched element 1 out of order");
    let ia = q.into_all();
    assert!(ia.0.matched.0 == v0 && ia.0.skipped[0].0 == s0);
    assert!(ia.1.matched.0 == v1 && ia.1.skipped[0].0 == s1);
    cover!(v0 != v1, "distinct payloads");
}
fn seq_3() {
    let v0 = nd::u8(); let s0 = nd::u8();
    let v1 = nd::u8(); let s1 = nd::u8();
    let v2 = nd::u8(); let s2 = nd::u8();
    let q = Seq3::from((Skipped::<W<0>, Sx, 1> { skipped: [Sx(s0)], matched: W::<0>(v0) }, Skipped::<W<1>, Sx, 1> { skipped: [Sx(s1)], matched: W::<1>(v1) }, Skipped::<W<2>, Sx, 1> { skipped: [Sx(s2)], matched: W::<2>(v2) }));
    let m = q.get_matched();
    assert!(m.0.0 == v0, "get_matched element 0 is not the 0-th element");
    assert!(m.1.0 == v1, "get_matched element 1 is not the 1-th element");
    assert!(m.2.0 == v2, "get_matched element 2 is not the 2-th element");
    let r = q.as_ref();
    assert!(r.0.0 == v0);
    assert!(r.1.0 == v1);
    assert!(r.2.0 == v2);
    let a = q.get_all();
    assert!(a.0.matched.0 == v0 && a.0.skipped[0].0 == s0, "get_all element 0 does not pair the element with the text skipped before it");
    assert!(a.1.matched.0 == v1 && a.1.skipped[0].0 == s1, "get_all element 1 does not pair the element with the text skipped before it");
    assert!(a.2.matched.0 == v2 && a.2.skipped[0].0 == s2, "get_all element 2 does not pair the element with the text skipped before it");
    let d = &q.content;
    assert!(d.0.matched.0 == v0);
    assert!(d.1.matched.0 == v1);
    assert!(d.2.matched.0 == v2);
    let im = q.clone().into_matched();
    assert!(im.0.0 == v0, "into_matched element 0 out of order");
    assert!(im.1.0 == v1, "into_matched element 1 out of order");
    assert!(im.2.0 == v2, "into_matched element 2 out of order");
    let ia = q.into_all();
    assert!(ia.0.matched.0 == v0 && ia.0.skipped[0].0 == s0);
    assert!(ia.1.matched.0 == v1 && ia.1.skipped[0].0 == s1);
    assert!(ia.2.matched.0 == v2 && ia.2.skipped[0].0 == s2);
    cover!(v0 != v1, "distinct payloads");
}
fn seq_4() {
    let v0 = nd::u8(); let s0 = nd::u8();
    let v1 = nd::u8(); let s1 = nd::u8();
    let v2 = nd::u8(); let s2 = nd::u8();
    let v3 = nd::u8(); let s3 = nd::u8();
    let q = Seq4::from((Skipped::<W<0>, Sx, 1> { skipped: [Sx(s0)], matched: W::<0>(v0) }, Skipped::<W<1>, Sx, 1> { skipped: [Sx(s1)], matched: W::<1>(v1) }, Skipped::<W<2>, Sx, 1> { skipped: [Sx(s2)], matched: W::<2>(v2) }, Skipped::<W<3>, Sx, 1> { skipped: [Sx(s3)], matched: W::<3>(v3) }));
    let m = q.get_matched();
    assert!(m.0.0 == v0, "get_matched element 0 is not the 0-th element");
    assert!(m.1.0 == v1, "get_matched element 1 is not the 1-th element");
    assert!(m.2.0 == v2, "get_matched element 2 is not the 2-th element");
    assert!(m.3.0 == v3, "get_matched element 3 is not the 3-th element");
    let r = q.as_ref();
    assert!(r.0.0 == v0);
    assert!(r.1.0 == v1);
    assert!(r.2.0 == v2);
    assert!(r.3.0 == v3);
    let a = q.get_all();
    assert!(a.0.matched.0 == v0 && a.0.skipped[0].0 == s0, "get_all element 0 does not pair the element with the text skipped before it");
    assert!(a.1.matched.0 == v1 && a.1.skipped[0].0 == s1, "get_all element 1 does not pair the element with the text skipped before it");
    assert!(a.2.matched.0 == v2 && a.2.skipped[0].0 == s2, "get_all element 2 does not pair the element with the text skipped before it");
    assert!(a.3.matched.0 == v3 && a.3.skipped[0].0 == s3, "get_all element 3 does not pair the element with the text skipped before it");
    let d = &q.content;
    assert!(d.0.matched.0 == v0);
    assert!(d.1.matched.0 == v1);
    assert!(d.2.matched.0 == v2);
    assert!(d.3.matched.0 == v3);
    let im = q.clone().into_matched();
    assert!(im.0.0 == v0, "into_matched element 0 out of order");
    assert!(im.1.0 == v1, "into_matched element 1 out of order");
    assert!(im.2.0 == v2, "into_matched element 2 out of order");
    assert!(im.3.0 == v3, "into_matched element 3 out of order");
    let ia = q.into_all();
    assert!(ia.0.matched.0 == v0 && ia.0.skipped[0].0 == s0);
    assert!(ia.1.matched.0 == v1 && ia.1.skipped[0].0 == s1);
    assert!(ia.2.matched.0 == v2 && ia.2.skipped[0].0 == s2);
    assert!(ia.3.matched.0 == v3 && ia.3.skipped[0].0 == s3);
    cover!(v0 != v1, "distinct payloads");
}
fn seq_5() {
    let v0 = nd::u8(); let s0 = nd::u8();
    let v1 = nd::u8(); let s1 = nd::u8();
    let v2 = nd::u8(); let s2 = nd::u8();
    let v3 = nd::u8(); let s3 = nd::u8();
    let v4 = nd::u8(); let s4 = nd::u8();
    let q = Seq5::from((Skipped::<W<0>, Sx, 1> { skipped: [Sx(s0)], matched: W::<0>(v0) }, Skipped::<W<1>, Sx, 1> { skipped: [Sx(s1)], matched: W::<1>(v1) }, Skipped::<W<2>, Sx, 1> { skipped: [Sx(s2)], matched: W::<2>(v2) }, Skipped::<W<3>, Sx, 1> { skipped: [Sx(s3)], matched: W::<3>(v3) }, Skipped::<W<4>, Sx, 1> { skipped: [Sx(s4)], matched: W::<4>(v4) }));
    let m = q.get_matched();
    assert!(m.0.0 == v0, "get_matched element 0 is not the 0-th element");
    assert!(m.1.0 == v1, "get_matched element 1 is not the 1-th element");
    assert!(m.2.0 == v2, "get_matched element 2 is not the 2-th element");
    assert!(m.3.0 == v3, "get_matched element 3 is not the 3-th element");
    assert!(m.4.0 == v4, "get_matched element 4 is not the 4-th element");
    let r = q.as_ref();
    assert!(r.0.0 == v0);
    assert!(r.1.0 == v1);
    assert!(r.2.0 == v2);
    assert!(r.3.0 == v3);
    assert!(r.4.0 == v4);
    let a = q.get_all();
    assert!(a.0.matched.0 == v0 && a.0.skipped[0].0 == s0, "get_all element 0 does not pair the element with the text skipped before it");
    assert!(a.1.matched.0 == v1 && a.1.skipped[0].0 == s1, "get_all element 1 does not pair the element with the text skipped before it");
    assert!(a.2.matched.0 == v2 && a.2.skipped[0].0 == s2, "get_all element 2 does not pair the element with the text skipped before it");
    assert!(a.3.matched.0 == v3 && a.3.skipped[0].0 == s3, "get_all element 3 does not pair the element with the text skipped before it");
    assert!(a.4.matched.0 == v4 && a.4.skipped[0].0 == s4, "get_all element 4 does not pair the element with the text skipped before it");
    let d = &q.content;
    assert!(d.0.matched.0 == v0);
    assert!(d.1.matched.0 == v1);
    assert!(d.2.matched.0 == v2);
    assert!(d.3.matched.0 == v3);
    assert!(d.4.matched.0 == v4);
    let im = q.clone().into_matched();
    assert!(im.0.0 == v0, "into_matched element 0 out of order");
    assert!(im.1.0 == v1, "into_matched element 1 out of order");
    assert!(im.2.0 == v2, "into_matched element 2 out of order");
    assert!(im.3.0 == v3, "into_matched element 3 out of order");
    assert!(im.4.0 == v4, "into_matched element 4 out of order");
    let ia = q.into_all();
    assert!(ia.0.matched.0 == v0 && ia.0.skipped[0].0 == s0);
    assert!(ia.1.matched.0 == v1 && ia.1.skipped[0].0 == s1);
    assert!(ia.2.matched.0 == v2 && ia.2.skipped[0].0 == s2);
    assert!(ia.3.matched.0 == v3 && ia.3.skipped[0].0 == s3);
    assert!(ia.4.matched.0 == v4 && ia.4.skipped[0].0 == s4);
    cover!(v0 != v1, "distinct payloads");
}
fn seq_6() {
    let v0 = nd::u8(); let s0 = nd::u8();
    let v1 = nd::u8(); let s1 = nd::u8();
    let v2 = nd::u8(); let s2 = nd::u8();
    let v3 = nd::u8(); let s3 = nd::u8();
    let v4 = nd::u8(); let s4 = nd::u8();
    let v5 = nd::u8(); let s5 = nd::u8();
    let q = Seq6::from((Skipped::<W<0>, Sx, 1> { skipped: [Sx(s0)], matched: W::<0>(v0) }, Skipped::<W<1>, Sx, 1> { skipped: [Sx(s1)], matched: W::<1>(v1) }, Skipped::<W<2>, Sx, 1> { skipped: [Sx(s2)], matched: W::<2>(v2) }, Skipped::<W<3>, Sx, 1> { skipped: [Sx(s3)], matched: W::<3>(v3) }, Skipped::<W<4>, Sx, 1> { skipped: [Sx(s4)], matched: W::<4>(v4) }, Skipped::<W<5>, Sx, 1> { skipped: [Sx(s5)], matched: W::<5>(v5) }));
    let m = q.get_matched();
    assert!(m.0.0 == v0, "get_matched element 0 is not the 0-th element");
    assert!(m.1.0 == v1, "get_matched element 1 is not the 1-th element");
    assert!(m.2.0 == v2, "get_matched element 2 is not the 2-th element");
    assert!(m.3.0 == v3, "get_matched element 3 is not the 3-th element");
    assert!(m.4.0 == v4, "get_matched element 4 is not the 4-th element");
    assert!(m.5.0 == v5, "get_matched element 5 is not the 5-th element");
    let r = q.as_ref();
    assert!(r.0.0 == v0);
    assert!(r.1.0 == v1);
    assert!(r.2.0 == v2);
    assert!(r.3.0 == v3);
    assert!(r.4.0 == v4);
    assert!(r.5.0 == v5);
    let a = q.get_all();
    assert!(a.0.matched.0 == v0 && a.0.skipped[0].0 == s0, "get_all element 0 does not pair the element with the text skipped before it");
    assert!(a.1.matched.0 == v1 && a.1.skipped[0].0 == s1, "get_all element 1 does not pair the element with the text skipped before it");
    assert!(a.2.matched.0 == v2 && a.2.skipped[0].0 == s2, "get_all element 2 does not pair the element with the text skipped before it");
    assert!(a.3.matched.0 == v3 && a.3.skipped[0].0 == s3, "get_all element 3 does not pair the element with the text skipped before it");
    assert!(a.4.matched.0 == v4 && a.4.skipped[0].0 == s4, "get_all element 4 does not pair the element with the text skipped before it");
    assert!(a.5.matched.0 == v5 && a.5.skipped[0].0 == s5, "get_all element 5 does not pair the element with the text skipped before it");
    let d = &q.content;
    assert!(d.0.matched.0 == v0);
    assert!(d.1.matched.0 == v1);
    assert!(d.2.matched.0 == v2);
    assert!(d.3.matched.0 == v3);
    assert!(d.4.matched.0 == v4);
    assert!(d.5.matched.0 == v5);
    let im = q.clone().into_matched();
    assert!(im.0.0 == v0, "into_matched element 0 out of order");
    assert!(im.1.0 == v1, "into_matched element 1 out of order");
    assert!(im.2.0 == v2, "into_matched element 2 out of order");
    assert!(im.3.0 == v3, "into_matched element 3 out of order");
    assert!(im.4.0 == v4, "into_matched element 4 out of order");
    assert!(im.5.0 == v5, "into_matched element 5 out of order");
    let ia = q.into_all();
    assert!(ia.0.matched.0 == v0 && ia.0.skipped[0].0 == s0);
    assert!(ia.1.matched.0 == v1 && ia.1.skipped[0].0 == s1);
    assert!(ia.2.matched.0 == v2 && ia.2.skipped[0].0 == s2);
    assert!(ia.3.matched.0 == v3 && ia.3.skipped[0].0 == s3);
    assert!(ia.4.matched.0 == v4 && ia.4.skipped[0].0 == s4);
    assert!(ia.5.matched.0 == v5 && ia.5.skipped[0].0 == s5);
    cover!(v0 != v1, "distinct payloads");
}
fn seq_7() {
    let v0 = nd::u8(); let s0 = nd::u8();
    let v1 = nd::u8(); let s1 = nd::u8();
    let v2 = nd::u8(); let s2 = nd::u8();
    let v3 = nd::u8(); let s3 = nd::u8();
    let v4 = nd::u8(); let s4 = nd::u8();
    let v5 = nd::u8(); let s5 = nd::u8();
    let v6 = nd::u8(); let s6 = nd::u8();
    let q = Seq7::from((Skipped::<W<0>, Sx, 1> { skipped: [Sx(s0)], matched: W::<0>(v0) }, Skipped::<W<1>, Sx, 1> { skipped: [Sx(s1)], matched: W::<1>(v1) }, Skipped::<W<2>, Sx, 1> { skipped: [Sx(s2)], matched: W::<2>(v2) }, Skipped::<W<3>, Sx, 1> { skipped: [Sx(s3)], matched: W::<3>(v3) }, Skipped::<W<4>, Sx, 1> { skipped: [Sx(s4)], matched: W::<4>(v4) }, Skipped::<W<5>, Sx, 1> { skipped: [Sx(s5)], matched: W::<5>(v5) }, Skipped::<W<6>, Sx, 1> { skipped: [Sx(s6)], matched: W::<6>(v6) }));
    let m = q.get_matched();
    assert!(m.0.0 == v0, "get_matched element 0 is not the 0-th element");
    assert!(m.1.0 == v1, "get_matched element 1 is not the 1-th element");
    assert!(m.2.0 == v2, "get_matched element 2 is not the 2-th element");
    assert!(m.3.0 == v3, "get_matched element 3 is not the 3-th element");
    assert!(m.4.0 == v4, "get_matched element 4 is not the 4-th element");
    assert!(m.5.0 == v5, "get_matched element 5 is not the 5-th element");
    assert!(m.6.0 == v6, "get_matched element 6 is not the 6-th element");
    let r = q.as_ref();
    assert!(r.0.0 == v0);
    assert!(r.1.0 == v1);
    assert!(r.2.0 == v2);
    assert!(r.3.0 == v3);
    assert!(r.4.0 == v4);
    assert!(r.5.0 == v5);
    assert!(r.6.0 == v6);
    let a = q.get_all();
    assert!(a.0.matched.0 == v0 && a.0.skipped[0].0 == s0, "get_all element 0 does not pair the element with the text skipped before it");
    assert!(a.1.matched.0 == v1 && a.1.skipped[0].0 == s1, "get_all element 1 does not pair the element with the text skipped before it");
    assert!(a.2.matched.0 == v2 && a.2.skipped[0].0 == s2, "get_all element 2 does not pair the element with the text skipped before it");
    assert!(a.3.matched.0 == v3 && a.3.skipped[0].0 == s3, "get_all element 3 does not pair the element with the text skipped before it");
    assert!(a.4.matched.0 == v4 && a.4.skipped[0].0 == s4, "get_all element 4 does not pair the element with the text skipped before it");
    assert!(a.5.matched.0 == v5 && a.5.skipped[0].0 == s5, "get_all element 5 does not pair the element with the text skipped before it");
    assert!(a.6.matched.0 == v6 && a.6.skipped[0].0 == s6, "get_all element 6 does not pair the element with the text skipped before it");
    let d = &q.content;
    assert!(d.0.matched.0 == v0);
    assert!(d.1.matched.0 == v1);
    assert!(d.2.matched.0 == v2);
    assert!(d.3.matched.0 == v3);
    assert!(d.4.matched.0 == v4);
    assert!(d.5.matched.0 == v5);
    assert!(d.6.matched.0 == v6);
    let im = q.clone().into_matched();
    assert!(im.0.0 == v0, "into_matched element 0 out of order");
    assert!(im.1.0 == v1, "into_matched element 1 out of order");
    assert!(im.2.0 == v2, "into_matched element 2 out of order");
    assert!(im.3.0 == v3, "into_matched element 3 out of order");
    assert!(im.4.0 == v4, "into_matched element 4 out of order");
    assert!(im.5.0 == v5, "into_matched element 5 out of order");
    assert!(im.6.0 == v6, "into_matched element 6 out of order");
    let ia = q.into_all();
    assert!(ia.0.matched.0 == v0 && ia.0.skipped[0].0 == s0);
    assert!(ia.1.matched.0 == v1 && ia.1.skipped[0].0 == s1);
    assert!(ia.2.matched.0 == v2 && ia.2.skipped[0].0 == s2);
    assert!(ia.3.matched.0 == v3 && ia.3.skipped[0].0 == s3);
    assert!(ia.4.matched.0 == v4 && ia.4.skipped[0].0 == s4);
    assert!(ia.5.matched.0 == v5 && ia.5.skipped[0].0 == s5);
    assert!(ia.6.matched.0 == v6 && ia.6.skipped[0].0 == s6);
    cover!(v0 != v1, "distinct payloads");
}
fn seq_8() {
    let v0 = nd::u8(); let s0 = nd::u8();
    let v1 = nd::u8(); let s1 = nd::u8();
    let v2 = nd::u8(); let s2 = nd::u8();
    let v3 = nd::u8(); let s3 = nd::u8();
    let v4 = nd::u8(); let s4 = nd::u8();
    let v5 = nd::u8(); let s5 = nd::u8();
    let v6 = nd::u8(); let s6 = nd::u8();
    let v7 = nd::u8(); let s7 = nd::u8();
    let q = Seq8::from((Skipped::<W<0>, Sx, 1> { skipped: [Sx(s0)], matched: W::<0>(v0) }, Skipped::<W<1>, Sx, 1> { skipped: [Sx(s1)], matched: W::<1>(v1) }, Skipped::<W<2>, Sx, 1> { skipped: [Sx(s2)], matched: W::<2>(v2) }, Skipped::<W<3>, Sx, 1> { skipped: [Sx(s3)], matched: W::<3>(v3) }, Skipped::<W<4>, Sx, 1> { skipped: [Sx(s4)], matched: W::<4>(v4) }, Skipped::<W<5>, Sx, 1> { skipped: [Sx(s5)], matched: W::<5>(v5) }, Skipped::<W<6>, Sx, 1> { skipped: [Sx(s6)], matched: W::<6>(v6) }, Skipped::<W<7>, Sx, 1> { skipped: [Sx(s7)], matched: W::<7>(v7) }));
    let m = q.get_matched();
    assert!(m.0.0 == v0, "get_matched element 0 is not the 0-th element");
    assert!(m.1.0 == v1, "get_matched element 1 is not the 1-th element");
    assert!(m.2.0 == v2, "get_matched element 2 is not the 2-th element");
    assert!(m.3.0 == v3, "get_matched element 3 is not the 3-th element");
    assert!(m.4.0 == v4, "get_matched element 4 is not the 4-th element");
    assert!(m.5.0 == v5, "get_matched element 5 is not the 5-th element");
    assert!(m.6.0 == v6, "get_matched element 6 is not the 6-th element");
    assert!(m.7.0 == v7, "get_matched element 7 is not the 7-th element");
    let r = q.as_ref();
    assert!(r.0.0 == v0);
    assert!(r.1.0 == v1);
    assert!(r.2.0 == v2);
    assert!(r.3.0 == v3);
    assert!(r.4.0 == v4);
    assert!(r.5.0 == v5);
    assert!(r.6.0 == v6);
    assert!(r.7.0 == v7);
    let a = q.get_all();
    assert!(a.0.matched.0 == v0 && a.0.skipped[0].0 == s0, "get_all element 0 does not pair the element with the text skipped before it");
    assert!(a.1.matched.0 == v1 && a.1.skipped[0].0 == s1, "get_all element 1 does not pair the element with the text skipped before it");
    assert!(a.2.matched.0 == v2 && a.2.skipped[0].0 == s2, "get_all element 2 does not pair the element with the text skipped before it");
    assert!(a.3.matched.0 == v3 && a.3.skipped[0].0 == s3, "get_all element 3 does not pair the element with the text skipped before it");
    assert!(a.4.matched.0 == v4 && a.4.skipped[0].0 == s4, "get_all element 4 does not pair the element with the text skipped before it");
    assert!(a.5.matched.0 == v5 && a.5.skipped[0].0 == s5, "get_all element 5 does not pair the element with the text skipped before it");
    assert!(a.6.matched.0 == v6 && a.6.skipped[0].0 == s6, "get_all element 6 does not pair the element with the text skipped before it");
    assert!(a.7.matched.0 == v7 && a.7.skipped[0].0 == s7, "get_all element 7 does not pair the element with the text skipped before it");
    let d = &q.content;
    assert!(d.0.matched.0 == v0);
    assert!(d.1.matched.0 == v1);
    assert!(d.2.matched.0 == v2);
    assert!(d.3.matched.0 == v3);
    assert!(d.4.matched.0 == v4);
    assert!(d.5.matched.0 == v5);
    assert!(d.6.matched.0 == v6);
    assert!(d.7.matched.0 == v7);
    let im = q.clone().into_matched();
    assert!(im.0.0 == v0, "into_matched element 0 out of order");
    assert!(im.1.0 == v1, "into_matched element 1 out of order");
    assert!(im.2.0 == v2, "into_matched element 2 out of order");
    assert!(im.3.0 == v3, "into_matched element 3 out of order");
    assert!(im.4.0 == v4, "into_matched element 4 out of order");
    assert!(im.5.0 == v5, "into_matched element 5 out of order");
    assert!(im.6.0 == v6, "into_matched element 6 out of order");
    assert!(im.7.0 == v7, "into_matched element 7 out of order");
    let ia = q.into_all();
    assert!(ia.0.matched.0 == v0 && ia.0.skipped[0].0 == s0);
    assert!(ia.1.matched.0 == v1 && ia.1.skipped[0].0 == s1);
    assert!(ia.2.matched.0 == v2 && ia.2.skipped[0].0 == s2);
    assert!(ia.3.matched.0 == v3 && ia.3.skipped[0].0 == s3);
    assert!(ia.4.matched.0 == v4 && ia.4.skipped[0].0 == s4);
    assert!(ia.5.matched.0 == v5 && ia.5.skipped[0].0 == s5);
    assert!(ia.6.matched.0 == v6 && ia.6.skipped[0].0 == s6);
    assert!(ia.7.matched.0 == v7 && ia.7.skipped[0].0 == s7);
    cover!(v0 != v1, "distinct payloads");
}
fn seq_9() {
    let v0 = nd::u8(); let s0 = nd::u8();
    let v1 = nd::u8(); let s1 = nd::u8();
    let v2 = nd::u8(); let s2 = nd::u8();
    let v3 = nd::u8(); let s3 = nd::u8();
    let v4 = nd::u8(); let s4 = nd::u8();
    let v5 = nd::u8(); let s5 = nd::u8();
    let v6 = nd::u8(); let s6 = nd::u8();
    let v7 = nd::u8(); let s7 = nd::u8();
    let v8 = nd::u8(); let s8 = nd::u8();
    let q = Seq9::from((Skipped::<W<0>, Sx, 1> { skipped: [Sx(s0)], matched: W::<0>(v0) }, Skipped::<W<1>, Sx, 1> { skipped: [Sx(s1)], matched: W::<1>(v1) }, Skipped::<W<2>, Sx, 1> { skipped: [Sx(s2)], matched: W::<2>(v2) }, Skipped::<W<3>, Sx, 1> { skipped: [Sx(s3)], matched: W::<3>(v3) }, Skipped::<W<4>, Sx, 1> { skipped: [Sx(s4)], matched: W::<4>(v4) }, Skipped::<W<5>, Sx, 1> { skipped: [Sx(s5)], matched: W::<5>(v5) }, Skipped::<W<6>, Sx, 1> { skipped: [Sx(s6)], matched: W::<6>(v6) }, Skipped::<W<7>, Sx, 1> { skipped: [Sx(s7)], matched: W::<7>(v7) }, Skipped::<W<8>, Sx, 1> { skipped: [Sx(s8)], matched: W::<8>(v8) }));
    let m = q.get_matched();
    assert!(m.0.0 == v0, "get_matched element 0 is not the 0-th element");
    assert!(m.1.0 == v1, "get_matched element 1 is not the 1-th element");
    assert!(m.2.0 == v2, "get_matched element 2 is not the 2-th element");
    assert!(m.3.0 == v3, "get_matched element 3 is not the 3-th element");
    assert!(m.4.0 == v4, "get_matched element 4 is not the 4-th element");
    assert!(m.5.0 == v5, "get_matched element 5 is not the 5-th element");
    assert!(m.6.0 == v6, "get_matched element 6 is not the 6-th element");
    assert!(m.7.0 == v7, "get_matched element 7 is not the 7-th element");
    assert!(m.8.0 == v8, "get_matched element 8 is not the 8-th element");
    let r = q.as_ref();
    assert!(r.0.0 == v0);
    assert!(r.1.0 == v1);
    assert!(r.2.0 == v2);
    assert!(r.3.0 == v3);
    assert!(r.4.0 == v4);
    assert!(r.5.0 == v5);
    assert!(r.6.0 == v6);
    assert!(r.7.0 == v7);
    assert!(r.8.0 == v8);
    let a = q.get_all();
    assert!(a.0.matched.0 == v0 && a.0.skipped[0].0 == s0, "get_all element 0 does not pair the element with the text skipped before it");
    assert!(a.1.matched.0 == v1 && a.1.skipped[0].0 == s1, "get_all element 1 does not pair the element with the text skipped before it");
    assert!(a.2.matched.0 == v2 && a.2.skipped[0].0 == s2, "get_all element 2 does not pair the element with the text skipped before it");
    assert!(a.3.matched.0 == v3 && a.3.skipped[0].0 == s3, "get_all element 3 does not pair the element with the text skipped before it");
    assert!(a.4.matched.0 == v4 && a.4.skipped[0].0 == s4, "get_all element 4 does not pair the element with the text skipped before it");
    assert!(a.5.matched.0 == v5 && a.5.skipped[0].0 == s5, "get_all element 5 does not pair the element with the text skipped before it");
    assert!(a.6.matched.0 == v6 && a.6.skipped[0].0 == s6, "get_all element 6 does not pair the element with the text skipped before it");
    assert!(a.7.matched.0 == v7 && a.7.skipped[0].0 == s7, "get_all element 7 does not pair the element with the text skipped before it");
    assert!(a.8.matched.0 == v8 && a.8.skipped[0].0 == s8, "get_all element 8 does not pair the element with the text skipped before it");
    let d = &q.content;
    assert!(d.0.matched.0 == v0);
    assert!(d.1.matched.0 == v1);
    assert!(d.2.matched.0 == v2);
    assert!(d.3.matched.0 == v3);
    assert!(d.4.matched.0 == v4);
    assert!(d.5.matched.0 == v5);
    assert!(d.6.matched.0 == v6);
    assert!(d.7.matched.0 == v7);
    assert!(d.8.matched.0 == v8);
    let im = q.clone().into_matched();
    assert!(im.0.0 == v0, "into_matched element 0 out of order");
    assert!(im.1.0 == v1, "into_matched element 1 out of order");
    assert!(im.2.0 == v2, "into_matched element 2 out of order");
    assert!(im.3.0 == v3, "into_matched element 3 out of order");
    assert!(im.4.0 == v4, "into_matched element 4 out of order");
    assert!(im.5.0 == v5, "into_matched element 5 out of order");
    assert!(im.6.0 == v6, "into_matched element 6 out of order");
    assert!(im.7.0 == v7, "into_matched element 7 out of order");
    assert!(im.8.0 == v8, "into_matched element 8 out of order");
    let ia = q.into_all();
    assert!(ia.0.matched.0 == v0 && ia.0.skipped[0].0 == s0);
    assert!(ia.1.matched.0 == v1 && ia.1.skipped[0].0 == s1);
    assert!(ia.2.matched.0 == v2 && ia.2.skipped[0].0 == s2);
    assert!(ia.3.matched.0 == v3 && ia.3.skipped[0].0 == s3);
    assert!(ia.4.matched.0 == v4 && ia.4.skipped[0].0 == s4);
    assert!(ia.5.matched.0 == v5 && ia.5.skipped[0].0 == s5);
    assert!(ia.6.matched.0 == v6 && ia.6.skipped[0].0 == s6);
    assert!(ia.7.matched.0 == v7 && ia.7.skipped[0].0 == s7);
    assert!(ia.8.matched.0 == v8 && ia.8.skipped[0].0 == s8);
    cover!(v0 != v1, "distinct payloads");
}
fn seq_10() {
    let v0 = nd::u8(); let s0 = nd::u8();
    let v1 = nd::u8(); let s1 = nd::u8();
    let v2 = nd::u8(); let s2 = nd::u8();
    let v3 = nd::u8(); let s3 = nd::u8();
    let v4 = nd::u8(); let s4 = nd::u8();
    let v5 = nd::u8(); let s5 = nd::u8();
    let v6 = nd::u8(); let s6 = nd::u8();
    let v7 = nd::u8(); let s7 = nd::u8();
    let v8 = nd::u8(); let s8 = nd::u8();
    let v9 = nd::u8(); let s9 = nd::u8();
    let q = Seq10::from((Skipped::<W<0>, Sx, 1> { skipped: [Sx(s0)], matched: W::<0>(v0) }, Skipped::<W<1>, Sx, 1> { skipped: [Sx(s1)], matched: W::<1>(v1) }, Skipped::<W<2>, Sx, 1> { skipped: [Sx(s2)], matched: W::<2>(v2) }, Skipped::<W<3>, Sx, 1> { skipped: [Sx(s3)], matched: W::<3>(v3) }, Skipped::<W<4>, Sx, 1> { skipped: [Sx(s4)], matched: W::<4>(v4) }, Skipped::<W<5>, Sx, 1> { skipped: [Sx(s5)], matched: W::<5>(v5) }, Skipped::<W<6>, Sx, 1> { skipped: [Sx(s6)], matched: W::<6>(v6) }, Skipped::<W<7>, Sx, 1> { skipped: [Sx(s7)], matched: W::<7>(v7) }, Skipped::<W<8>, Sx, 1> { skipped: [Sx(s8)], matched: W::<8>(v8) }, Skipped::<W<9>, Sx, 1> { skipped: [Sx(s9)], matched: W::<9>(v9) }));
    let m = q.get_matched();
    assert!(m.0.0 == v0, "get_matched element 0 is not the 0-th element");
    assert!(m.1.0 == v1, "get_matched element 1 is not the 1-th element");
    assert!(m.2.0 == v2, "get_matched element 2 is not the 2-th element");
    assert!(m.3.0 == v3, "get_matched element 3 is not the 3-th element");
    assert!(m.4.0 == v4, "get_matched element 4 is not the 4-th element");
    assert!(m.5.0 == v5, "get_matched element 5 is not the 5-th element");
    assert!(m.6.0 == v6, "get_matched element 6 is not the 6-th element");
    assert!(m.7.0 == v7, "get_matched element 7 is not the 7-th element");
    assert!(m.8.0 == v8, "get_matched element 8 is not the 8-th element");
    assert!(m.9.0 == v9, "get_matched element 9 is not the 9-th element");
    let r = q.as_ref();
    assert!(r.0.0 == v0);
    assert!(r.1.0 == v1);
    assert!(r.2.0 == v2);
    assert!(r.3.0 == v3);
    assert!(r.4.0 == v4);
    assert!(r.5.0 == v5);
    assert!(r.6.0 == v6);
    assert!(r.7.0 == v7);
    assert!(r.8.0 == v8);
    assert!(r.9.0 == v9);
    let a = q.get_all();
    assert!(a.0.matched.0 == v0 && a.0.skipped[0].0 == s0, "get_all element 0 does not pair the element with the text skipped before it");
    assert!(a.1.matched.0 == v1 && a.1.skipped[0].0 == s1, "get_all element 1 does not pair the element with the text skipped before it");
    assert!(a.2.matched.0 == v2 && a.2.skipped[0].0 == s2, "get_all element 2 does not pair the element with the text skipped before it");
    assert!(a.3.matched.0 == v3 && a.3.skipped[0].0 == s3, "get_all element 3 does not pair the element with the text skipped before it");
    assert!(a.4.matched.0 == v4 && a.4.skipped[0].0 == s4, "get_all element 4 does not pair the element with the text skipped before it");
    assert!(a.5.matched.0 == v5 && a.5.skipped[0].0 == s5, "get_all element 5 does not pair the element with the text skipped before it");
    assert!(a.6.matched.0 == v6 && a.6.skipped[0].0 == s6, "get_all element 6 does not pair the element with the text skipped before it");
    assert!(a.7.matched.0 == v7 && a.7.skipped[0].0 == s7, "get_all element 7 does not pair the element with the text skipped before it");
    assert!(a.8.matched.0 == v8 && a.8.skipped[0].0 == s8, "get_all element 8 does not pair the element with the text skipped before it");
    assert!(a.9.matched.0 == v9 && a.9.skipped[0].0 == s9, "get_all element 9 does not pair the element with the text skipped before it");
    let d = &q.content;
    assert!(d.0.matched.0 == v0);
    assert!(d.1.matched.0 == v1);
    assert!(d.2.matched.0 == v2);
    assert!(d.3.matched.0 == v3);
    assert!(d.4.matched.0 == v4);
    assert!(d.5.matched.0 == v5);
    assert!(d.6.matched.0 == v6);
    assert!(d.7.matched.0 == v7);
    assert!(d.8.matched.0 == v8);
    assert!(d.9.matched.0 == v9);
    let im = q.clone().into_matched();
    assert!(im.0.0 == v0, "into_matched element 0 out of order");
    assert!(im.1.0 == v1, "into_matched element 1 out of order");
    assert!(im.2.0 == v2, "into_matched element 2 out of order");
    assert!(im.3.0 == v3, "into_matched element 3 out of order");
    assert!(im.4.0 == v4, "into_matched element 4 out of order");
    assert!(im.5.0 == v5, "into_matched element 5 out of order");
    assert!(im.6.0 == v6, "into_matched element 6 out of order");
    assert!(im.7.0 == v7, "into_matched element 7 out of order");
    assert!(im.8.0 == v8, "into_matched element 8 out of order");
    assert!(im.9.0 == v9, "into_matched element 9 out of order");
    let ia = q.into_all();
    assert!(ia.0.matched.0 == v0 && ia.0.skipped[0].0 == s0);
    assert!(ia.1.matched.0 == v1 && ia.1.skipped[0].0 == s1);
    assert!(ia.2.matched.0 == v2 && ia.2.skipped[0].0 == s2);
    assert!(ia.3.matched.0 == v3 && ia.3.skipped[0].0 == s3);
    assert!(ia.4.matched.0 == v4 && ia.4.skipped[0].0 == s4);
    assert!(ia.5.matched.0 == v5 && ia.5.skipped[0].0 == s5);
    assert!(ia.6.matched.0 == v6 && ia.6.skipped[0].0 == s6);
    assert!(ia.7.matched.0 == v7 && ia.7.skipped[0].0 == s7);
    assert!(ia.8.matched.0 == v8 && ia.8.skipped[0].0 == s8);
    assert!(ia.9.matched.0 == v9 && ia.9.skipped[0].0 == s9);
    cover!(v0 != v1, "distinct payloads");
}
fn seq_11() {
    let v0 = nd::u8(); let s0 = nd::u8();
    let v1 = nd::u8(); let s1 = nd::u8();
    let v2 = nd::u8(); let s2 = nd::u8();
    let v3 = nd::u8(); let s3 = nd::u8();
    let v4 = nd::u8(); let s4 = nd::u8();
    let v5 = nd::u8(); let s5 = nd::u8();
    let v6 = nd::u8(); let s6 = nd::u8();
    let v7 = nd::u8(); let s7 = nd::u8();
    let v8 = nd::u8(); let s8 = nd::u8();
    let v9 = nd::u8(); let s9 = nd::u8();
    let v10 = nd::u8(); let s10 = nd::u8();
    let q = Seq11::from((Skipped::<W<0>, Sx, 1> { skipped: [Sx(s0)], matched: W::<0>(v0) }, Skipped::<W<1>, Sx, 1> { skipped: [Sx(s1)], matched: W::<1>(v1) }, Skipped::<W<2>, Sx, 1> { skipped: [Sx(s2)], matched: W::<2>(v2) }, Skipped::<W<3>, Sx, 1> { skipped: [Sx(s3)], matched: W::<3>(v3) }, Skipped::<W<4>, Sx, 1> { skipped: [Sx(s4)], matched: W::<4>(v4) }, Skipped::<W<5>, Sx, 1> { skipped: [Sx(s5)], matched: W::<5>(v5) }, Skipped::<W<6>, Sx, 1> { skipped: [Sx(s6)], matched: W::<6>(v6) }, Skipped::<W<7>, Sx, 1> { skipped: [Sx(s7)], matched: W::<7>(v7) }, Skipped::<W<8>, Sx, 1> { skipped: [Sx(s8)], matched: W::<8>(v8) }, Skipped::<W<9>, Sx, 1> { skipped: [Sx(s9)], matched: W::<9>(v9) }, Skipped::<W<10>, Sx, 1> { skipped: [Sx(s10)], matched: W::<10>(v10) }));
    let m = q.get_matched();
    assert!(m.0.0 == v0, "get_matched element 0 is not the 0-th element");
    assert!(m.1.0 == v1, "get_matched element 1 is not the 1-th element");
    assert!(m.2.0 == v2, "get_matched element 2 is not the 2-th element");
    assert!(m.3.0 == v3, "get_matched element 3 is not the 3-th element");
    assert!(m.4.0 == v4, "get_matched element 4 is not the 4-th element");
    assert!(m.5.0 == v5, "get_matched element 5 is not the 5-th element");
    assert!(m.6.0 == v6, "get_matched element 6 is not the 6-th element");
    assert!(m.7.0 == v7, "get_matched element 7 is not the 7-th element");
    assert!(m.8.0 == v8, "get_matched element 8 is not the 8-th element");
    assert!(m.9.0 == v9, "get_matched element 9 is not the 9-th element");
    assert!(m.10.0 == v10, "get_matched element 10 is not the 10-th element");
    let r = q.as_ref();
    assert!(r.0.0 == v0);
    assert!(r.1.0 == v1);
    assert!(r.2.0 == v2);
    assert!(r.3.0 == v3);
    assert!(r.4.0 == v4);
    assert!(r.5.0 == v5);
    assert!(r.6.0 == v6);
    assert!(r.7.0 == v7);
    assert!(r.8.0 == v8);
    assert!(r.9.0 == v9);
    assert!(r.10.0 == v10);
    let a = q.get_all();
    assert!(a.0.matched.0 == v0 && a.0.skipped[0].0 == s0, "get_all element 0 does not pair the element with the text skipped before it");
    assert!(a.1.matched.0 == v1 && a.1.skipped[0].0 == s1, "get_all element 1 does not pair the element with the text skipped before it");
    assert!(a.2.matched.0 == v2 && a.2.skipped[0].0 == s2, "get_all element 2 does not pair the element with the text skipped before it");
    assert!(a.3.matched.0 == v3 && a.3.skipped[0].0 == s3, "get_all element 3 does not pair the element with the text skipped before it");
    assert!(a.4.matched.0 == v4 && a.4.skipped[0].0 == s4, "get_all element 4 does not pair the element with the text skipped before it");
    assert!(a.5.matched.0 == v5 && a.5.skipped[0].0 == s5, "get_all element 5 does not pair the element with the text skipped before it");
    assert!(a.6.matched.0 == v6 && a.6.skipped[0].0 == s6, "get_all element 6 does not pair the element with the text skipped before it");
    assert!(a.7.matched.0 == v7 && a.7.skipped[0].0 == s7, "get_all element 7 does not pair the element with the text skipped before it");
    assert!(a.8.matched.0 == v8 && a.8.skipped[0].0 == s8, "get_all element 8 does not pair the element with the text skipped before it");
    assert!(a.9.matched.0 == v9 && a.9.skipped[0].0 == s9, "get_all element 9 does not pair the element with the text skipped before it");
    assert!(a.10.matched.0 == v10 && a.10.skipped[0].0 == s10, "get_all element 10 does not pair the element with the text skipped before it");
    let d = &q.content;
    assert!(d.0.matched.0 == v0);
    assert!(d.1.matched.0 == v1);
    assert!(d.2.matched.0 == v2);
    assert!(d.3.matched.0 == v3);
    assert!(d.4.matched.0 == v4);
    assert!(d.5.matched.0 == v5);
    assert!(d.6.matched.0 == v6);
    assert!(d.7.matched.0 == v7);
    assert!(d.8.matched.0 == v8);
    assert!(d.9.matched.0 == v9);
    assert!(d.10.matched.0 == v10);
    let im = q.clone().into_matched();
    assert!(im.0.0 == v0, "into_matched element 0 out of order");
    assert!(im.1.0 == v1, "into_matched element 1 out of order");
    assert!(im.2.0 == v2, "into_matched element 2 out of order");
    assert!(im.3.0 == v3, "into_matched element 3 out of order");
    assert!(im.4.0 == v4, "into_matched element 4 out of order");
    assert!(im.5.0 == v5, "into_matched element 5 out of order");
    assert!(im.6.0 == v6, "into_matched element 6 out of order");
    assert!(im.7.0 == v7, "into_matched element 7 out of order");
    assert!(im.8.0 == v8, "into_matched element 8 out of order");
    assert!(im.9.0 == v9, "into_matched element 9 out of order");
    assert!(im.10.0 == v10, "into_matched element 10 out of order");
    let ia = q.into_all();
    assert!(ia.0.matched.0 == v0 && ia.0.skipped[0].0 == s0);
    assert!(ia.1.matched.0 == v1 && ia.1.skipped[0].0 == s1);
    assert!(ia.2.matched.0 == v2 && ia.2.skipped[0].0 == s2);
    assert!(ia.3.matched.0 == v3 && ia.3.skipped[0].0 == s3);
    assert!(ia.4.matched.0 == v4 && ia.4.skipped[0].0 == s4);
    assert!(ia.5.matched.0 == v5 && ia.5.skipped[0].0 == s5);
    assert!(ia.6.matched.0 == v6 && ia.6.skipped[0].0 == s6);
    assert!(ia.7.matched.0 == v7 && ia.7.skipped[0].0 == s7);
    assert!(ia.8.matched.0 == v8 && ia.8.skipped[0].0 == s8);
    assert!(ia.9.matched.0 == v9 && ia.9.skipped[0].0 == s9);
    assert!(ia.10.matched.0 == v10 && ia.10.skipped[0].0 == s10);
    cover!(v0 != v1, "distinct payloads");
}
fn seq_12() {
    let v0 = nd::u8(); let s0 = nd::u8();
    let v1 = nd::u8(); let s1 = nd::u8();
    let v2 = nd::u8(); let s2 = nd::u8();
    let v3 = nd::u8(); let s3 = nd::u8();
    let v4 = nd::u8(); let s4 = nd::u8();
    let v5 = nd::u8(); let s5 = nd::u8();
    let v6 = nd::u8(); let s6 = nd::u8();
    let v7 = nd::u8(); let s7 = nd::u8();
    let v8 = nd::u8(); let s8 = nd::u8();
    let v9 = nd::u8(); let s9 = nd::u8();
    let v10 = nd::u8(); let s10 = nd::u8();
    let v11 = nd::u8(); let s11 = nd::u8();
    let q = Seq12::from((Skipped::<W<0>, Sx, 1> { skipped: [Sx(s0)], matched: W::<0>(v0) }, Skipped::<W<1>, Sx, 1> { skipped: [Sx(s1)], matched: W::<1>(v1) }, Skipped::<W<2>, Sx, 1> { skipped: [Sx(s2)], matched: W::<2>(v2) }, Skipped::<W<3>, Sx, 1> { skipped: [Sx(s3)], matched: W::<3>(v3) }, Skipped::<W<4>, Sx, 1> { skipped: [Sx(s4)], matched: W::<4>(v4) }, Skipped::<W<5>, Sx, 1> { skipped: [Sx(s5)], matched: W::<5>(v5) }, Skipped::<W<6>, Sx, 1> { skipped: [Sx(s6)], matched: W::<6>(v6) }, Skipped::<W<7>, Sx, 1> { skipped: [Sx(s7)], matched: W::<7>(v7) }, Skipped::<W<8>, Sx, 1> { skipped: [Sx(s8)], matched: W::<8>(v8) }, Skipped::<W<9>, Sx, 1> { skipped: [Sx(s9)], matched: W::<9>(v9) }, Skipped::<W<10>, Sx, 1> { skipped: [Sx(s10)], matched: W::<10>(v10) }, Skipped::<W<11>, Sx, 1> { skipped: [Sx(s11)], matched: W::<11>(v11) }));
    let m = q.get_matched();
    assert!(m.0.0 == v0, "get_matched element 0 is not the 0-th element");
    assert!(m.1.0 == v1, "get_matched element 1 is not the 1-th element");
    assert!(m.2.0 == v2, "get_matched element 2 is not the 2-th element");
    assert!(m.3.0 == v3, "get_matched element 3 is not the 3-th element");
    assert!(m.4.0 == v4, "get_matched element 4 is not the 4-th element");
    assert!(m.5.0 == v5, "get_matched element 5 is not the 5-th element");
    assert!(m.6.0 == v6, "get_matched element 6 is not the 6-th element");
    assert!(m.7.0 == v7, "get_matched element 7 is not the 7-th element");
    assert!(m.8.0 == v8, "get_matched element 8 is not the 8-th element");
    assert!(m.9.0 == v9, "get_matched element 9 is not the 9-th element");
    assert!(m.10.0 == v10, "get_matched element 10 is not the 10-th element");
    assert!(m.11.0 == v11, "get_matched element 11 is not the 11-th element");
    let r = q.as_ref();
    assert!(r.0.0 == v0);
    assert!(r.1.0 == v1);
    assert!(r.2.0 == v2);
    assert!(r.3.0 == v3);
    assert!(r.4.0 == v4);
    assert!(r.5.0 == v5);
    assert!(r.6.0 == v6);
    assert!(r.7.0 == v7);
    assert!(r.8.0 == v8);
    assert!(r.9.0 == v9);
    assert!(r.10.0 == v10);
    assert!(r.11.0 == v11);
    let a = q.get_all();
    assert!(a.0.matched.0 == v0 && a.0.skipped[0].0 == s0, "get_all element 0 does not pair the element with the text skipped before it");
    assert!(a.1.matched.0 == v1 && a.1.skipped[0].0 == s1, "get_all element 1 does not pair the element with the text skipped before it");
    assert!(a.2.matched.0 == v2 && a.2.skipped[0].0 == s2, "get_all element 2 does not pair the element with the text skipped before it");
    assert!(a.3.matched.0 == v3 && a.3.skipped[0].0 == s3, "get_all element 3 does not pair the element with the text skipped before it");
    assert!(a.4.matched.0 == v4 && a.4.skipped[0].0 == s4, "get_all element 4 does not pair the element with the text skipped before it");
    assert!(a.5.matched.0 == v5 && a.5.skipped[0].0 == s5, "get_all element 5 does not pair the element with the text skipped before it");
    assert!(a.6.matched.0 == v6 && a.6.skipped[0].0 == s6, "get_all element 6 does not pair the element with the text skipped before it");
    assert!(a.7.matched.0 == v7 && a.7.skipped[0].0 == s7, "get_all element 7 does not pair the element with the text skipped before it");
    assert!(a.8.matched.0 == v8 && a.8.skipped[0].0 == s8, "get_all element 8 does not pair the element with the text skipped before it");
    assert!(a.9.matched.0 == v9 && a.9.skipped[0].0 == s9, "get_all element 9 does not pair the element with the text skipped before it");
    assert!(a.10.matched.0 == v10 && a.10.skipped[0].0 == s10, "get_all element 10 does not pair the element with the text skipped before it");
    assert!(a.11.matched.0 == v11 && a.11.skipped[0].0 == s11, "get_all element 11 does not pair the element with the text skipped before it");
    let d = &q.content;
    assert!(d.0.matched.0 == v0);
    assert!(d.1.matched.0 == v1);
    assert!(d.2.matched.0 == v2);
    assert!(d.3.matched.0 == v3);
    assert!(d.4.matched.0 == v4);
    assert!(d.5.matched.0 == v5);
    assert!(d.6.matched.0 == v6);
    assert!(d.7.matched.0 == v7);
    assert!(d.8.matched.0 == v8);
    assert!(d.9.matched.0 == v9);
    assert!(d.10.matched.0 == v10);
    assert!(d.11.matched.0 == v11);
    let im = q.clone().into_matched();
    assert!(im.0.0 == v0, "into_matched element 0 out of order");
    assert!(im.1.0 == v1, "into_matched element 1 out of order");
    assert!(im.2.0 == v2, "into_matched element 2 out of order");
    assert!(im.3.0 == v3, "into_matched element 3 out of order");
    assert!(im.4.0 == v4, "into_matched element 4 out of order");
    assert!(im.5.0 == v5, "into_matched element 5 out of order");
    assert!(im.6.0 == v6, "into_matched element 6 out of order");
    assert!(im.7.0 == v7, "into_matched element 7 out of order");
    assert!(im.8.0 == v8, "into_matched element 8 out of order");
    assert!(im.9.0 == v9, "into_matched element 9 out of order");
    assert!(im.10.0 == v10, "into_matched element 10 out of order");
    assert!(im.11.0 == v11, "into_matched element 11 out of order");
    let ia = q.into_all();
    assert!(ia.0.matched.0 == v0 && ia.0.skipped[0].0 == s0);
    assert!(ia.1.matched.0 == v1 && ia.1.skipped[0].0 == s1);
    assert!(ia.2.matched.0 == v2 && ia.2.skipped[0].0 == s2);
    assert!(ia.3.matched.0 == v3 && ia.3.skipped[0].0 == s3);
    assert!(ia.4.matched.0 == v4 && ia.4.skipped[0].0 == s4);
    assert!(ia.5.matched.0 == v5 && ia.5.skipped[0].0 == s5);
    assert!(ia.6.matched.0 == v6 && ia.6.skipped[0].0 == s6);
    assert!(ia.7.matched.0 == v7 && ia.7.skipped[0].0 == s7);
    assert!(ia.8.matched.0 == v8 && ia.8.skipped[0].0 == s8);
    assert!(ia.9.matched.0 == v9 && ia.9.skipped[0].0 == s9);
    assert!(ia.10.matched.0 == v10 && ia.10.skipped[0].0 == s10);
    assert!(ia.11.matched.0 == v11 && ia.11.skipped[0].0 == s11);
    cover!(v0 != v1, "distinct payloads");
}
fn seq_13() {
    let v0 = nd::u8(); let s0 = nd::u8();
    let v1 = nd::u8(); let s1 = nd::u8();
    let v2 = nd::u8(); let s2 = nd::u8();
    let v3 = nd::u8(); let s3 = nd::u8();
    let v4 = nd::u8(); let s4 = nd::u8();
    let v5 = nd::u8(); let s5 = nd::u8();
    let v6 = nd::u8(); let s6 = nd::u8();
    let v7 = nd::u8(); let s7 = nd::u8();
    let v8 = nd::u8(); let s8 = nd::u8();
    let v9 = nd::u8(); let s9 = nd::u8();
    let v10 = nd::u8(); let s10 = nd::u8();
    let v11 = nd::u8(); let s11 = nd::u8();
    let v12 = nd::u8(); let s12 = nd::u8();
    let q = Seq13::from((Skipped::<W<0>, Sx, 1> { skipped: [Sx(s0)], matched: W::<0>(v0) }, Skipped::<W<1>, Sx, 1> { skipped: [Sx(s1)], matched: W::<1>(v1) }, Skipped::<W<2>, Sx, 1> { skipped: [Sx(s2)], matched: W::<2>(v2) }, Skipped::<W<3>, Sx, 1> { skipped: [Sx(s3)], matched: W::<3>(v3) }, Skipped::<W<4>, Sx, 1> { skipped: [Sx(s4)], matched: W::<4>(v4) }, Skipped::<W<5>, Sx, 1> { skipped: [Sx(s5)], matched: W::<5>(v5) }, Skipped::<W<6>, Sx, 1> { skipped: [Sx(s6)], matched: W::<6>(v6) }, Skipped::<W<7>, Sx, 1> { skipped: [Sx(s7)], matched: W::<7>(v7) }, Skipped::<W<8>, Sx, 1> { skipped: [Sx(s8)], matched: W::<8>(v8) }, Skipped::<W<9>, Sx, 1> { skipped: [Sx(s9)], matched: W::<9>(v9) }, Skipped::<W<10>, Sx, 1> { skipped: [Sx(s10)], matched: W::<10>(v10) }, Skipped::<W<11>, Sx, 1> { skipped: [Sx(s11)], matched: W::<11>(v11) }, Skipped::<W<12>, Sx, 1> { skipped: [Sx(s12)], matched: W::<12>(v12) }));
    let m = q.get_matched();
    assert!(m.0.0 == v0, "get_matched element 0 is not the 0-th element");
    assert!(m.1.0 == v1, "get_matched element 1 is not the 1-th element");
    assert!(m.2.0 == v2, "get_matched element 2 is not the 2-th element");
    assert!(m.3.0 == v3, "get_matched element 3 is not the 3-th element");
    assert!(m.4.0 == v4, "get_matched element 4 is not the 4-th element");
    assert!(m.5.0 == v5, "get_matched element 5 is not the 5-th element");
    assert!(m.6.0 == v6, "get_matched element 6 is not the 6-th element");
    assert!(m.7.0 == v7, "get_matched element 7 is not the 7-th element");
    assert!(m.8.0 == v8, "get_matched element 8 is not the 8-th element");
    assert!(m.9.0 == v9, "get_matched element 9 is not the 9-th element");
    assert!(m.10.0 == v10, "get_matched element 10 is not the 10-th element");
    assert!(m.11.0 == v11, "get_matched element 11 is not the 11-th element");
    assert!(m.12.0 == v12, "get_matched element 12 is not the 12-th element");
    let r = q.as_ref();
    assert!(r.0.0 == v0);
    assert!(r.1.0 == v1);
    assert!(r.2.0 == v2);
    assert!(r.3.0 == v3);
    assert!(r.4.0 == v4);
    assert!(r.5.0 == v5);
    assert!(r.6.0 == v6);
    assert!(r.7.0 == v7);
    assert!(r.8.0 == v8);
    assert!(r.9.0 == v9);
    assert!(r.10.0 == v10);
    assert!(r.11.0 == v11);
    assert!(r.12.0 == v12);
    let a = q.get_all();
    assert!(a.0.matched.0 == v0 && a.0.skipped[0].0 == s0, "get_all element 0 does not pair the element with the text skipped before it");
    assert!(a.1.matched.0 == v1 && a.1.skipped[0].0 == s1, "get_all element 1 does not pair the element with the text skipped before it");
    assert!(a.2.matched.0 == v2 && a.2.skipped[0].0 == s2, "get_all element 2 does not pair the element with the text skipped before it");
    assert!(a.3.matched.0 == v3 && a.3.skipped[0].0 == s3, "get_all element 3 does not pair the element with the text skipped before it");
    assert!(a.4.matched.0 == v4 && a.4.skipped[0].0 == s4, "get_all element 4 does not pair the element with the text skipped before it");
    assert!(a.5.matched.0 == v5 && a.5.skipped[0].0 == s5, "get_all element 5 does not pair the element with the text skipped before it");
    assert!(a.6.matched.0 == v6 && a.6.skipped[0].0 == s6, "get_all element 6 does not pair the element with the text skipped before it");
    assert!(a.7.matched.0 == v7 && a.7.skipped[0].0 == s7, "get_all element 7 does not pair the element with the text skipped before it");
    assert!(a.8.matched.0 == v8 && a.8.skipped[0].0 == s8, "get_all element 8 does not pair the element with the text skipped before it");
    assert!(a.9.matched.0 == v9 && a.9.skipped[0].0 == s9, "get_all element 9 does not pair the element with the text skipped before it");
    assert!(a.10.matched.0 == v10 && a.10.skipped[0].0 == s10, "get_all element 10 does not pair the element with the text skipped before it");
    assert!(a.11.matched.0 == v11 && a.11.skipped[0].0 == s11, "get_all element 11 does not pair the element with the text skipped before it");
    assert!(a.12.matched.0 == v12 && a.12.skipped[0].0 == s12, "get_all element 12 does not pair the element with the text skipped before it");
    let d = &q.content;
    assert!(d.0.matched.0 == v0);
    assert!(d.1.matched.0 == v1);
    assert!(d.2.matched.0 == v2);
    assert!(d.3.matched.0 == v3);
    assert!(d.4.matched.0 == v4);
    assert!(d.5.matched.0 == v5);
    assert!(d.6.matched.0 == v6);
    assert!(d.7.matched.0 == v7);
    assert!(d.8.matched.0 == v8);
    assert!(d.9.matched.0 == v9);
    assert!(d.10.matched.0 == v10);
    assert!(d.11.matched.0 == v11);
    assert!(d.12.matched.0 == v12);
    let im = q.clone().into_matched();
    assert!(im.0.0 == v0, "into_matched element 0 out of order");
    assert!(im.1.0 == v1, "into_matched element 1 out of order");
    assert!(im.2.0 == v2, "into_matched element 2 out of order");
    assert!(im.3.0 == v3, "into_matched element 3 out of order");
    assert!(im.4.0 == v4, "into_matched element 4 out of order");
    assert!(im.5.0 == v5, "into_matched element 5 out of order");
    assert!(im.6.0 == v6, "into_matched element 6 out of order");
    assert!(im.7.0 == v7, "into_matched element 7 out of order");
    assert!(im.8.0 == v8, "into_matched element 8 out of order");
    assert!(im.9.0 == v9, "into_matched element 9 out of order");
    assert!(im.10.0 == v10, "into_matched element 10 out of order");
    assert!(im.11.0 == v11, "into_matched element 11 out of order");
    assert!(im.12.0 == v12, "into_matched element 12 out of order");
    let ia = q.into_all();
    assert!(ia.0.matched.0 == v0 && ia.0.skipped[0].0 == s0);
    assert!(ia.1.matched.0 == v1 && ia.1.skipped[0].0 == s1);
    assert!(ia.2.matched.0 == v2 && ia.2.skipped[0].0 == s2);
    assert!(ia.3.matched.0 == v3 && ia.3.skipped[0].0 == s3);
    assert!(ia.4.matched.0 == v4 && ia.4.skipped[0].0 == s4);
    assert!(ia.5.matched.0 == v5 && ia.5.skipped[0].0 == s5);
    assert!(ia.6.matched.0 == v6 && ia.6.skipped[0].0 == s6);
    assert!(ia.7.matched.0 == v7 && ia.7.skipped[0].0 == s7);
    assert!(ia.8.matched.0 == v8 && ia.8.skipped[0].0 == s8);
    assert!(ia.9.matched.0 == v9 && ia.9.skipped[0].0 == s9);
    assert!(ia.10.matched.0 == v10 && ia.10.skipped[0].0 == s10);
    assert!(ia.11.matched.0 == v11 && ia.11.skipped[0].0 == s11);
    assert!(ia.12.matched.0 == v12 && ia.12.skipped[0].0 == s12);
    cover!(v0 != v1, "distinct payloads");
}
fn seq_16() {
    let v0 = nd::u8(); let s0 = nd::u8();
    let v1 = nd::u8(); let s1 = nd::u8();
    let v2 = nd::u8(); let s2 = nd::u8();
    let v3 = nd::u8(); let s3 = nd::u8();
    let v4 = nd::u8(); let s4 = nd::u8();
    let v5 = nd::u8(); let s5 = nd::u8();
    let v6 = nd::u8(); let s6 = nd::u8();
    let v7 = nd::u8(); let s7 = nd::u8();
    let v8 = nd::u8(); let s8 = nd::u8();
    let v9 = nd::u8(); let s9 = nd::u8();
    let v10 = nd::u8(); let s10 = nd::u8();
    let v11 = nd::u8(); let s11 = nd::u8();
    let v12 = nd::u8(); let s12 = nd::u8();
    let v13 = nd::u8(); let s13 = nd::u8();
    let v14 = nd::u8(); let s14 = nd::u8();
    let v15 = nd::u8(); let s15 = nd::u8();
    let q = Seq16::from((Skipped::<W<0>, Sx, 1> { skipped: [Sx(s0)], matched: W::<0>(v0) }, Skipped::<W<1>, Sx, 1> { skipped: [Sx(s1)], matched: W::<1>(v1) }, Skipped::<W<2>, Sx, 1> { skipped: [Sx(s2)], matched: W::<2>(v2) }, Skipped::<W<3>, Sx, 1> { skipped: [Sx(s3)], matched: W::<3>(v3) }, Skipped::<W<4>, Sx, 1> { skipped: [Sx(s4)], matched: W::<4>(v4) }, Skipped::<W<5>, Sx, 1> { skipped: [Sx(s5)], matched: W::<5>(v5) }, Skipped::<W<6>, Sx, 1> { skipped: [Sx(s6)], matched: W::<6>(v6) }, Skipped::<W<7>, Sx, 1> { skipped: [Sx(s7)], matched: W::<7>(v7) }, Skipped::<W<8>, Sx, 1> { skipped: [Sx(s8)], matched: W::<8>(v8) }, Skipped::<W<9>, Sx, 1> { skipped: [Sx(s9)], matched: W::<9>(v9) }, Skipped::<W<10>, Sx, 1> { skipped: [Sx(s10)], matched: W::<10>(v10) }, Skipped::<W<11>, Sx, 1> { skipped: [Sx(s11)], matched: W::<11>(v11) }, Skipped::<W<12>, Sx, 1> { skipped: [Sx(s12)], matched: W::<12>(v12) }, Skipped::<W<13>, Sx, 1> { skipped: [Sx(s13)], matched: W::<13>(v13) }, Skipped::<W<14>, Sx, 1> { skipped: [Sx(s14)], matched: W::<14>(v14) }, Skipped::<W<15>, Sx, 1> { skipped: [Sx(s15)], matched: W::<15>(v15) }));
    let m = q.get_matched();
    assert!(m.0.0 == v0, "get_matched element 0 is not the 0-th element");
    assert!(m.1.0 == v1, "get_matched element 1 is not the 1-th element");
    assert!(m.2.0 == v2, "get_matched element 2 is not the 2-th element");
    assert!(m.3.0 == v3, "get_matched element 3 is not the 3-th element");
    assert!(m.4.0 == v4, "get_matched element 4 is not the 4-th element");
    assert!(m.5.0 == v5, "get_matched element 5 is not the 5-th element");
    assert!(m.6.0 == v6, "get_matched element 6 is not the 6-th element");
    assert!(m.7.0 == v7, "get_matched element 7 is not the 7-th element");
    assert!(m.8.0 == v8, "get_matched element 8 is not the 8-th element");
    assert!(m.9.0 == v9, "get_matched element 9 is not the 9-th element");
    assert!(m.10.0 == v10, "get_matched element 10 is not the 10-th element");
    assert!(m.11.0 == v11, "get_matched element 11 is not the 11-th element");
    assert!(m.12.0 == v12, "get_matched element 12 is not the 12-th element");
    assert!(m.13.0 == v13, "get_matched element 13 is not the 13-th element");
    assert!(m.14.0 == v14, "get_matched element 14 is not the 14-th element");
    assert!(m.15.0 == v15, "get_matched element 15 is not the 15-th element");
    let r = q.as_ref();
    assert!(r.0.0 == v0);
    assert!(r.1.0 == v1);
    assert!(r.2.0 == v2);
    assert!(r.3.0 == v3);
    assert!(r.4.0 == v4);
    assert!(r.5.0 == v5);
    assert!(r.6.0 == v6);
    assert!(r.7.0 == v7);
    assert!(r.8.0 == v8);
    assert!(r.9.0 == v9);
    assert!(r.10.0 == v10);
    assert!(r.11.0 == v11);
    assert!(r.12.0 == v12);
    assert!(r.13.0 == v13);
    assert!(r.14.0 == v14);
    assert!(r.15.0 == v15);
    let a = q.get_all();
    assert!(a.0.matched.0 == v0 && a.0.skipped[0].0 == s0, "get_all element 0 does not pair the element with the text skipped before it");
    assert!(a.1.matched.0 == v1 && a.1.skipped[0].0 == s1, "get_all element 1 does not pair the element with the text skipped before it");
    assert!(a.2.matched.0 == v2 && a.2.skipped[0].0 == s2, "get_all element 2 does not pair the element with the text skipped before it");
    assert!(a.3.matched.0 == v3 && a.3.skipped[0].0 == s3, "get_all element 3 does not pair the element with the text skipped before it");
    assert!(a.4.matched.0 == v4 && a.4.skipped[0].0 == s4, "get_all element 4 does not pair the element with the text skipped before it");
    assert!(a.5.matched.0 == v5 && a.5.skipped[0].0 == s5, "get_all element 5 does not pair the element with the text skipped before it");
    assert!(a.6.matched.0 == v6 && a.6.skipped[0].0 == s6, "get_all element 6 does not pair the element with the text skipped before it");
    assert!(a.7.matched.0 == v7 && a.7.skipped[0].0 == s7, "get_all element 7 does not pair the element with the text skipped before it");
    assert!(a.8.matched.0 == v8 && a.8.skipped[0].0 == s8, "get_all element 8 does not pair the element with the text skipped before it");
    assert!(a.9.matched.0 == v9 && a.9.skipped[0].0 == s9, "get_all element 9 does not pair the element with the text skipped before it");
    assert!(a.10.matched.0 == v10 && a.10.skipped[0].0 == s10, "get_all element 10 does not pair the element with the text skipped before it");
    assert!(a.11.matched.0 == v11 && a.11.skipped[0].0 == s11, "get_all element 11 does not pair the element with the text skipped before it");
    assert!(a.12.matched.0 == v12 && a.12.skipped[0].0 == s12, "get_all element 12 does not pair the element with the text skipped before it");
    assert!(a.13.matched.0 == v13 && a.13.skipped[0].0 == s13, "get_all element 13 does not pair the element with the text skipped before it");
    assert!(a.14.matched.0 == v14 && a.14.skipped[0].0 == s14, "get_all element 14 does not pair the element with the text skipped before it");
    assert!(a.15.matched.0 == v15 && a.15.skipped[0].0 == s15, "get_all element 15 does not pair the element with the text skipped before it");
    let d = &q.content;
    assert!(d.0.matched.0 == v0);
    assert!(d.1.matched.0 == v1);
    assert!(d.2.matched.0 == v2);
    assert!(d.3.matched.0 == v3);
    assert!(d.4.matched.0 == v4);
    assert!(d.5.matched.0 == v5);
    assert!(d.6.matched.0 == v6);
    assert!(d.7.matched.0 == v7);
    assert!(d.8.matched.0 == v8);
    assert!(d.9.matched.0 == v9);
    assert!(d.10.matched.0 == v10);
    assert!(d.11.matched.0 == v11);
    assert!(d.12.matched.0 == v12);
    assert!(d.13.matched.0 == v13);
    assert!(d.14.matched.0 == v14);
    assert!(d.15.matched.0 == v15);
    let im = q.clone().into_matched();
    assert!(im.0.0 == v0, "into_matched element 0 out of order");
    assert!(im.1.0 == v1, "into_matched element 1 out of order");
    assert!(im.2.0 == v2, "into_matched element 2 out of order");
    assert!(im.3.0 == v3, "into_matched element 3 out of order");
    assert!(im.4.0 == v4, "into_matched element 4 out of order");
    assert!(im.5.0 == v5, "into_matched element 5 out of order");
    assert!(im.6.0 == v6, "into_matched element 6 out of order");
    assert!(im.7.0 == v7, "into_matched element 7 out of order");
    assert!(im.8.0 == v8, "into_matched element 8 out of order");
    assert!(im.9.0 == v9, "into_matched element 9 out of order");
    assert!(im.10.0 == v10, "into_matched element 10 out of order");
    assert!(im.11.0 == v11, "into_matched element 11 out of order");
    assert!(im.12.0 == v12, "into_matched element 12 out of order");
    assert!(im.13.0 == v13, "into_matched element 13 out of order");
    assert!(im.14.0 == v14, "into_matched element 14 out of order");
    assert!(im.15.0 == v15, "into_matched element 15 out of order");
    let ia = q.into_all();
    assert!(ia.0.matched.0 == v0 && ia.0.skipped[0].0 == s0);
    assert!(ia.1.matched.0 == v1 && ia.1.skipped[0].0 == s1);
    assert!(ia.2.matched.0 == v2 && ia.2.skipped[0].0 == s2);
    assert!(ia.3.matched.0 == v3 && ia.3.skipped[0].0 == s3);
    assert!(ia.4.matched.0 == v4 && ia.4.skipped[0].0 == s4);
    assert!(ia.5.matched.0 == v5 && ia.5.skipped[0].0 == s5);
    assert!(ia.6.matched.0 == v6 && ia.6.skipped[0].0 == s6);
    assert!(ia.7.matched.0 == v7 && ia.7.skipped[0].0 == s7);
    assert!(ia.8.matched.0 == v8 && ia.8.skipped[0].0 == s8);
    assert!(ia.9.matched.0 == v9 && ia.9.skipped[0].0 == s9);
    assert!(ia.10.matched.0 == v10 && ia.10.skipped[0].0 == s10);
    assert!(ia.11.matched.0 == v11 && ia.11.skipped[0].0 == s11);
    assert!(ia.12.matched.0 == v12 && ia.12.skipped[0].0 == s12);
    assert!(ia.13.matched.0 == v13 && ia.13.skipped[0].0 == s13);
    assert!(ia.14.matched.0 == v14 && ia.14.skipped[0].0 == s14);
    assert!(ia.15.matched.0 == v15 && ia.15.skipped[0].0 == s15);
    cover!(v0 != v1, "distinct payloads");
}

// ------------------------------------------------------------------ match_choices! (proc macro of the derive crate)
mod generics {
    pub use super::{Choice13, Choice16};
    pub use pest_typed::choices::*;
}
fn match_choices_4() {
    let sel = nd::u8();
    nd::assume(sel < 4);
    let v = nd::u8();
    let c: Choice4<W<0>, W<1>, W<2>, W<3>> = match sel {
        0 => Choice4::_0(W::<0>(v)),
        1 => Choice4::_1(W::<1>(v)),
        2 => Choice4::_2(W::<2>(v)),
        _ => Choice4::_3(W::<3>(v)),
    };
    let (ran, val) = pest_typed_derive::match_choices!(c {
        a => (0u8, a.0),
        b => (1u8, b.0),
        d => (2u8, d.0),
        e => (3u8, e.0),
    });
    assert!(ran == sel && val == v, "match_choices! ran the arm of another alternative");
    cover!(sel == 3, "last arm");
}
fn match_choices_13() {
    let sel = nd::u8();
    nd::assume(sel < 13);
    let v = nd::u8();
    type C = Choice13<W<0>, W<1>, W<2>, W<3>, W<4>, W<5>, W<6>, W<7>, W<8>, W<9>, W<10>, W<11>, W<12>>;
    let c: C = match sel {
        0 => C::_0(W::<0>(v)), 1 => C::_1(W::<1>(v)), 2 => C::_2(W::<2>(v)), 3 => C::_3(W::<3>(v)),
        4 => C::_4(W::<4>(v)), 5 => C::_5(W::<5>(v)), 6 => C::_6(W::<6>(v)), 7 => C::_7(W::<7>(v)),
        8 => C::_8(W::<8>(v)), 9 => C::_9(W::<9>(v)), 10 => C::_10(W::<10>(v)), 11 => C::_11(W::<11>(v)),
        _ => C::_12(W::<12>(v)),
    };
    let (ran, val) = pest_typed_derive::match_choices!(c {
        a0 => (0u8, a0.0), a1 => (1u8, a1.0), a2 => (2u8, a2.0), a3 => (3u8, a3.0), a4 => (4u8, a4.0),
        a5 => (5u8, a5.0), a6 => (6u8, a6.0), a7 => (7u8, a7.0), a8 => (8u8, a8.0), a9 => (9u8, a9.0),
        a10 => (10u8, a10.0), a11 => (11u8, a11.0), a12 => (12u8, a12.0),
    });
    assert!(ran == sel && val == v, "match_choices! ran the arm of another alternative");
    cover!(sel == 12, "last arm");
}

// ------------------------------------------------------------------ first match wins, on symbolic input
fn first_match3() {
    let buf = nd::ascii_buf::<3>(b"abx");
    let s = nd::as_str(&buf);
    let p0 = nd::usize();
    nd::assume(p0 <= 3);
    type T = Choice3<Str<A>, Str<AB>, Str<A>>;
    let (o, v) = pc_ref::<T, RChoice3<RStr<A>, RStr<AB>, RStr<A>>>(s, p0, 0);
    let c = Ctx { b: s.as_bytes(), start: 0, end: 3 };
    let st = RefState::new(p0);
    let exp = first_match([RStr::<A>::eval(c, st), RStr::<AB>::eval(c, st), RStr::<A>::eval(c, st)]);
    match (v, exp) {
        (None, None) => {}
        (Some(v), Some(i)) => {
            let got = if v._0().is_some() { 0 } else if v._1().is_some() { 1 } else { 2 };
            assert!(got == i, "parsed choice holds an alternative that is not the first one matching");
        }
        _ => panic!("verdict differs"),
    }
    cover!(exp == Some(0), "first alternative");
    let _ = o;
}
fn first_match4() {
    let buf = nd::ascii_buf::<3>(b"abc");
    let s = nd::as_str(&buf);
    let p0 = nd::usize();
    nd::assume(p0 <= 3);
    // a prefix chain, longest first except one inversion: "abc" | "a" | "ab" | ANY
    type T = Choice4<Str<ABC>, Str<A>, Str<AB>, ANY>;
    let (_o, v) = pc_ref::<T, RChoice4<RStr<ABC>, RStr<A>, RStr<AB>, RAny>>(s, p0, 0);
    let c = Ctx { b: s.as_bytes(), start: 0, end: 3 };
    let st = RefState::new(p0);
    let exp = first_match([RStr::<ABC>::eval(c, st), RStr::<A>::eval(c, st), RStr::<AB>::eval(c, st), RAny::eval(c, st)]);
    match (v, exp) {
        (None, None) => {}
        (Some(v), Some(i)) => {
            let got = if v._0().is_some() { 0 } else if v._1().is_some() { 1 } else if v._2().is_some() { 2 } else { 3 };
            assert!(got == i, "parsed choice holds an alternative that is not the first one matching");
            if let Some(a) = v._3() {
                assert!(a.content as u32 == s.as_bytes()[p0] as u32);
            }
        }
        _ => panic!("verdict differs"),
    }
    cover!(exp == Some(3), "fell through to the last alternative");
    cover!(exp == Some(1), "second alternative shadows the third");
}

// ------------------------------------------------------------------ repetition iterators
fn rep_iters() {
    use crate::c03::PROG;
    abs_init(3, PROG);
    let p0 = nd::usize();
    nd::assume(p0 <= 3);
    type T = RepMin<Abs<0, 0>, AbsSkip<3>, 1, 0>;
    let (_o, v) = p_ref::<T, RRep<RAbsSkip<3>, 1, RAbs<0, 0>, 0, { usize::MAX }>>(XXX, p0, 0);
    let v = v.unwrap();
    let n = v.content.len();
    // iter_matched: input order
    let mut k = 0;
    let mut last_end = p0;
    let mut it = v.iter_matched();
    while k < 4 {
        match it.next() {
            Some(e) => {
                assert!(k < n);
                assert!(e.start >= last_end && e.end > e.start, "iter_matched out of input order");
                assert!(e.start == v.content[k].matched.start);
                last_end = e.end;
            }
            None => assert!(k >= n, "iter_matched ended early"),
        }
        k += 1;
    }
    // iter_all carries the skipped text: element start = previous end + skipped length
    let mut k = 0;
    let mut prev_end = p0;
    let mut it = v.iter_all();
    while k < 4 {
        if let Some(e) = it.next() {
            let skipped = e.skipped[0].n;
            assert!(e.matched.start == prev_end + skipped, "iter_all does not carry the text skipped before the iteration");
            if k == 0 {
                assert!(skipped == 0, "skip recorded before the first iteration");
            }
            prev_end = e.matched.end;
        }
        k += 1;
    }
    // into_iter_matched: same order by value
    let mut k = 0;
    let starts: [usize; 4] = core::array::from_fn(|i| if i < n { v.content[i].matched.start } else { 0 });
    let mut it = v.into_iter_matched();
    while k < 4 {
        if let Some(e) = it.next() {
            assert!(e.start == starts[k], "into_iter_matched out of order");
        }
        k += 1;
    }
    cover!(n >= 2, "two iterations");
    core::mem::forget(it);
}

// ------------------------------------------------------------------ leaves expose what they consumed
fn leaf_content(which: u8) {
    let buf = nd::utf8_buf::<4>();
    let s = nd::as_str(&buf);
    let p0 = nd::usize();
    nd::assume(p0 <= 4 && s.is_char_boundary(p0));
    let rest = &s[p0..];
    let interesting: bool;
    match which {
        0 => {
            let (o, v) = p_ref::<ANY, RAny>(s, p0, 0);
            if let Some(v) = v {
                assert!(Some(v.content) == rest.chars().next(), "ANY.content is not the character at the cursor");
                assert!(o.parse.unwrap() == p0 + v.content.len_utf8());
            }
            interesting = o.parse.is_some() && o.parse.unwrap() - p0 == 3;
        }
        1 => {
            let (o, v) = p_ref::<CharRange<'a', '中'>, RRange<'a', '中'>>(s, p0, 0);
            if let Some(v) = v {
                assert!(Some(v.content) == rest.chars().next(), "CharRange.content is not the character at the cursor");
                assert!(v.content >= 'a' && v.content <= '中');
            }
            interesting = o.parse.is_some() && o.parse.unwrap() - p0 == 2;
        }
        2 => {
            let (o, v) = p_ref::<Insens<'_, AZ>, RInsens<AZ>>(s, p0, 0);
            if let Some(v) = v {
                let e = o.parse.unwrap();
                assert!(v.content.as_ptr() == s[p0..e].as_ptr() && v.content.len() == 2, "Insens.content is not the text matched");
                assert!(v.content.as_bytes()[0] == s.as_bytes()[p0] && v.content.as_bytes()[1] == s.as_bytes()[p0 + 1], "Insens.content is not the actual spelling");
            }
            interesting = o.parse.is_some() && s.as_bytes()[p0] == b'a';
        }
        3 => {
            let (o, v) = p_ref::<NEWLINE, RNewline>(s, p0, 0);
            if let Some(v) = v {
                let n = o.parse.unwrap() - p0;
                let b = s.as_bytes();
                match v.content {
                    NewLineType::CRLF => assert!(n == 2 && b[p0] == b'\r' && b[p0 + 1] == b'\n'),
                    NewLineType::LF => assert!(n == 1 && b[p0] == b'\n'),
                    NewLineType::CR => assert!(n == 1 && b[p0] == b'\r' && (p0 + 1 >= 4 || b[p0 + 1] != b'\n')),
                }
            }
            interesting = o.parse.is_some() && o.parse.unwrap() - p0 == 2;
        }
        4 => {
            let (o, v) = p_ref::<Skip<'_, N_A_BC>, RSkipUntil<N_A_BC>>(s, p0, 0);
            let v = v.unwrap();
            assert!(v.span.start() == p0 && v.span.end() == o.parse.unwrap(), "Skip.span is not the text consumed");
            interesting = o.parse.unwrap() > p0;
        }
        _ => {
            let (o, v) = p_ref::<SkipChar<'_, 2>, RSkipChar<2>>(s, p0, 0);
            if let Some(v) = v {
                assert!(v.span.start() == p0 && v.span.end() == o.parse.unwrap(), "SkipChar.span is not the text consumed");
            }
            interesting = o.parse.is_some() && o.parse.unwrap() - p0 == 4;
        }
    }
    cover!(interesting, "the interesting case of this leaf (multi-byte character / CRLF / non-empty skip / other spelling)");
}

/// PEEK / POP spans: the text consumed (PEEK) resp. the popped entry (POP) — real stack.
fn stack_leaf_spans() {
    let buf = nd::ascii_buf::<4>(b"ab");
    let s = nd::as_str(&buf);
    type T<'i> = Seq3<Skipped<Push<ANY>, Ws, 0>, Skipped<PEEK<'i>, Ws, 0>, Skipped<POP<'i>, Ws, 0>>;
    let (o, v) = p_ref::<T<'_>, RSeq3<RWs, 0, RPush<RAny>, RPeek, RPop>>(s, 0, 0);
    if let Some(v) = v {
        let (_, peek, pop) = v.get_matched();
        assert!(peek.span.start() == 1 && peek.span.end() == 2, "PEEK.span is not the text consumed");
        assert!(pop.span.as_str().len() == 1, "POP.span has the wrong length");
        assert!(o.parse == Some(3));
        core::mem::forget(v);
    }
    cover!(o.parse.is_some(), "matched");
}

harnesses! {
    fn c17_choice_2() [] : "Q|Choice2 (library-provided): exactly one accessor is Some and it is the constructed alternative; if_then/else_if/else_then, reference() and consuming chains run exactly that closure; symbolic alternative index and payload" { choice_2() }
    fn c17_choice_3() [] : "Q|Choice3 (library-provided): exactly one accessor is Some and it is the constructed alternative; if_then/else_if/else_then, reference() and consuming chains run exactly that closure; symbolic alternative index and payload" { choice_3() }
    fn c17_choice_4() [] : "Q|Choice4 (library-provided): exactly one accessor is Some and it is the constructed alternative; if_then/else_if/else_then, reference() and consuming chains run exactly that closure; symbolic alternative index and payload" { choice_4() }
    fn c17_choice_5() [] : "Q|Choice5 (library-provided): exactly one accessor is Some and it is the constructed alternative; if_then/else_if/else_then, reference() and consuming chains run exactly that closure; symbolic alternative index and payload" { choice_5() }
    fn c17_choice_6() [] : "Q|Choice6 (library-provided): exactly one accessor is Some and it is the constructed alternative; if_then/else_if/else_then, reference() and consuming chains run exactly that closure; symbolic alternative index and payload" { choice_6() }
    fn c17_choice_7() [] : "Q|Choice7 (library-provided): exactly one accessor is Some and it is the constructed alternative; if_then/else_if/else_then, reference() and consuming chains run exactly that closure; symbolic alternative index and payload" { choice_7() }
    fn c17_choice_8() [] : "Q|Choice8 (library-provided): exactly one accessor is Some and it is the constructed alternative; if_then/else_if/else_then, reference() and consuming chains run exactly that closure; symbolic alternative index and payload" { choice_8() }
    fn c17_choice_9() [] : "Q|Choice9 (library-provided): exactly one accessor is Some and it is the constructed alternative; if_then/else_if/else_then, reference() and consuming chains run exactly that closure; symbolic alternative index and payload" { choice_9() }
    fn c17_choice_10() [] : "Q|Choice10 (library-provided): exactly one accessor is Some and it is the constructed alternative; if_then/else_if/else_then, reference() and consuming chains run exactly that closure; symbolic alternative index and payload" { choice_10() }
    fn c17_choice_11() [] : "Q|Choice11 (library-provided): exactly one accessor is Some and it is the constructed alternative; if_then/else_if/else_then, reference() and consuming chains run exactly that closure; symbolic alternative index and payload" { choice_11() }
    fn c17_choice_12() [] : "Q|Choice12 (library-provided): exactly one accessor is Some and it is the constructed alternative; if_then/else_if/else_then, reference() and consuming chains run exactly that closure; symbolic alternative index and payload" { choice_12() }
    fn c17_choice_13() [] : "Q|Choice13 (instantiated with pest_typed::choices! as the generator does for arity >= 12): exactly one accessor is Some and it is the constructed alternative; if_then/else_if/else_then, reference() and consuming chains run exactly that closure; symbolic alternative index and payload" { choice_13() }
    fn c17_choice_16() [] : "Q|Choice16 (instantiated with pest_typed::choices! as the generator does for arity >= 12): exactly one accessor is Some and it is the constructed alternative; if_then/else_if/else_then, reference() and consuming chains run exactly that closure; symbolic alternative index and payload" { choice_16() }
    fn c17_seq_2() [] : "Q|Seq2 (library-provided): get_matched/as_ref/get_all/into_matched/into_all return the elements in grammar order, get_all pairs each with the skipped item; symbolic payloads" { seq_2() }
    fn c17_seq_3() [] : "Q|Seq3 (library-provided): get_matched/as_ref/get_all/into_matched/into_all return the elements in grammar order, get_all pairs each with the skipped item; symbolic payloads" { seq_3() }
    fn c17_seq_4() [] : "Q|Seq4 (library-provided): get_matched/as_ref/get_all/into_matched/into_all return the elements in grammar order, get_all pairs each with the skipped item; symbolic payloads" { seq_4() }
    fn c17_seq_5() [] : "Q|Seq5 (library-provided): get_matched/as_ref/get_all/into_matched/into_all return the elements in grammar order, get_all pairs each with the skipped item; symbolic payloads" { seq_5() }
    fn c17_seq_6() [] : "Q|Seq6 (library-provided): get_matched/as_ref/get_all/into_matched/into_all return the elements in grammar order, get_all pairs each with the skipped item; symbolic payloads" { seq_6() }
    fn c17_seq_7() [] : "Q|Seq7 (library-provided): get_matched/as_ref/get_all/into_matched/into_all return the elements in grammar order, get_all pairs each with the skipped item; symbolic payloads" { seq_7() }
    fn c17_seq_8() [] : "Q|Seq8 (library-provided): get_matched/as_ref/get_all/into_matched/into_all return the elements in grammar order, get_all pairs each with the skipped item; symbolic payloads" { seq_8() }
    fn c17_seq_9() [] : "Q|Seq9 (library-provided): get_matched/as_ref/get_all/into_matched/into_all return the elements in grammar order, get_all pairs each with the skipped item; symbolic payloads" { seq_9() }
    fn c17_seq_10() [] : "Q|Seq10 (library-provided): get_matched/as_ref/get_all/into_matched/into_all return the elements in grammar order, get_all pairs each with the skipped item; symbolic payloads" { seq_10() }
    fn c17_seq_11() [] : "Q|Seq11 (library-provided): get_matched/as_ref/get_all/into_matched/into_all return the elements in grammar order, get_all pairs each with the skipped item; symbolic payloads" { seq_11() }
    fn c17_seq_12() [] : "Q|Seq12 (library-provided): get_matched/as_ref/get_all/into_matched/into_all return the elements in grammar order, get_all pairs each with the skipped item; symbolic payloads" { seq_12() }
    fn c17_seq_13() [] : "Q|Seq13 (instantiated with pest_typed::seq!): get_matched/as_ref/get_all/into_matched/into_all return the elements in grammar order, get_all pairs each with the skipped item; symbolic payloads" { seq_13() }
    fn c17_seq_16() [] : "Q|Seq16 (instantiated with pest_typed::seq!): get_matched/as_ref/get_all/into_matched/into_all return the elements in grammar order, get_all pairs each with the skipped item; symbolic payloads" { seq_16() }
    fn c17_match_choices_4() [] : "Q|match_choices! over Choice4 runs exactly the arm of the constructed alternative" { match_choices_4() }
    fn c17_match_choices_13() [] : "Q|match_choices! over a macro-generated Choice13" { match_choices_13() }
    #[kani::unwind(8)] fn c17_first_match3() [T0 S] : "Q|parsed Choice3<\"a\",\"ab\",\"a\"> holds the least index whose alternative matches; 3 bytes over {a,b,x}" { first_match3() }
    #[kani::unwind(8)] fn c17_first_match4() [T0 S] : "Q|parsed Choice4<\"abc\",\"a\",\"ab\",ANY> (prefix chain): first match wins" { first_match4() }
    #[kani::unwind(8)] fn c17_rep_iters() [T0 S] : "Q|iter_matched / into_iter_matched yield iterations in input order, iter_all carries the skipped text; abstract children" { rep_iters() }
    #[kani::unwind(8)] fn c17_leaf_any() [T0 S] : "Q|ANY.content = the character at the cursor; every valid UTF-8 string of 4 bytes" { leaf_content(0) }
    #[kani::unwind(8)] fn c17_leaf_range() [T0 S] : "Q|CharRange.content = the character at the cursor" { leaf_content(1) }
    #[kani::unwind(8)] fn c17_leaf_insens() [T0 S] : "Q|Insens.content = the actual spelling in the input" { leaf_content(2) }
    #[kani::unwind(8)] fn c17_leaf_newline() [T0 S] : "Q|NEWLINE.content = CRLF / LF / CR as in the text" { leaf_content(3) }
    #[kani::unwind(8)] fn c17_leaf_skip() [T0 S] : "Q|Skip.span = the text consumed" { leaf_content(4) }
    #[kani::unwind(8)] fn c17_leaf_skipchar() [T0 S] : "Q|SkipChar.span = the text consumed" { leaf_content(5) }
    #[kani::unwind(8)] fn c17_stack_leaf_spans() [T0 S] : "Q|PEEK.span = text consumed, POP.span = popped entry" { stack_leaf_spans() }
}
