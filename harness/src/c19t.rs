//! Thorough tier of c19: bounded repetitions over 4 and 5 input positions (generated from c19.rs; do not edit).
use crate::c03::{Nk, RSk, Sk, FREE, PROG};
use crate::common::*;
use crate::nd;
use crate::refpeg::*;
use crate::rel::*;
use pest_typed::predefined_node::*;
use pest_typed::TypedNode;

fn rep_abs_with_p<const P: usize, const SKIP: usize, const MIN: usize, const MAX: usize, const KIND: u8>(d0: usize, adv: [u8; ABS_IDS]) {
    abs_init_p::<P>(adv);
    let p0 = nd::usize();
    nd::assume(p0 <= P - 1);
    let (o, v) = pc_ref::<RepMinMax<Abs<0, KIND>, AbsSkip<3>, SKIP, MIN, MAX>, RRep<RSk, SKIP, RAbs<0, KIND>, MIN, MAX>>(&XXXXX[..P - 1], p0, d0);
    if let Some(v) = v {
        let n = v.content.len();
        assert!(n >= MIN && n <= MAX, "number of elements outside MIN..=MAX");
        assert!(n == o.reference.unwrap().last_reps, "element count differs from the reference");
        let end = o.parse.unwrap();
        if n > 0 {
            assert!(v.content[n - 1].matched.end == end, "cursor is not the end of the last matched iteration");
            assert!(v.content[0].matched.start == p0, "first iteration does not start at the cursor (skip before it?)");
        } else {
            assert!(end == p0, "zero iterations but input consumed");
        }
        let mut i = 1;
        while i < P - 1 {
            if i < n {
                assert!(v.content[i].matched.start >= v.content[i - 1].matched.end, "iterations overlap / out of order");
                if SKIP == 0 {
                    assert!(v.content[i].matched.start == v.content[i - 1].matched.end, "gap between iterations without skip");
                }
            }
            i += 1;
        }
        core::mem::forget(v);
    }
    cover!(o.check.is_some() && (MAX == 0 || o.reference.unwrap().last_reps == MAX || MAX > P - 1), "accepted (at MAX where reachable)");
    cover!(o.check.is_none() || MIN == 0, "rejected (n/a for MIN = 0)");
}

fn repmin_abs_p<const P: usize, const SKIP: usize, const MIN: usize, const KIND: u8>(d0: usize) {
    abs_init_p::<P>(PROG);
    let p0 = nd::usize();
    nd::assume(p0 <= P - 1);
    let (o, v) = pc_ref::<RepMin<Abs<0, KIND>, AbsSkip<3>, SKIP, MIN>, RRep<RSk, SKIP, RAbs<0, KIND>, MIN, { usize::MAX }>>(&XXXXX[..P - 1], p0, d0);
    if let Some(v) = v {
        let n = v.content.len();
        assert!(n >= MIN, "fewer than MIN elements");
        assert!(n == o.reference.unwrap().last_reps, "element count differs from the reference");
        let end = o.parse.unwrap();
        if n > 0 {
            assert!(v.content[n - 1].matched.end == end, "cursor is not the end of the last matched iteration");
        } else {
            assert!(end == p0);
        }
        core::mem::forget(v);
    }
    cover!(o.check.is_some() && o.reference.unwrap().last_reps >= 2, "two or more iterations");
    cover!(o.check.is_none() || MIN == 0, "rejected (n/a for MIN = 0)");
}


harnesses! {
    #[kani::unwind(6)] fn c19_mm_0_0_s_n4() [T0 S] : "T|RepMinMax<_,0,0> with skip: never iterates; abstract progressing child, 4 positions [4 input positions]" { rep_abs_with_p::<5, 1, 0, 0, 0>(0, PROG) }
    #[kani::unwind(7)] fn c19_mm_0_0_s_n5() [T0 S] : "T|RepMinMax<_,0,0> with skip: never iterates; abstract progressing child, 5 positions [5 input positions]" { rep_abs_with_p::<6, 1, 0, 0, 0>(0, PROG) }
    #[kani::unwind(6)] fn c19_mm_0_1_s_n4() [T0 S] : "T|RepMinMax<_,0,1> with skip [4 input positions]" { rep_abs_with_p::<5, 1, 0, 1, 0>(0, PROG) }
    #[kani::unwind(7)] fn c19_mm_0_1_s_n5() [T0 S] : "T|RepMinMax<_,0,1> with skip [5 input positions]" { rep_abs_with_p::<6, 1, 0, 1, 0>(0, PROG) }
    #[kani::unwind(6)] fn c19_mm_0_2_s_n4() [T0 S] : "T|RepMinMax<_,0,2> with skip [4 input positions]" { rep_abs_with_p::<5, 1, 0, 2, 0>(0, PROG) }
    #[kani::unwind(7)] fn c19_mm_0_2_s_n5() [T0 S] : "T|RepMinMax<_,0,2> with skip [5 input positions]" { rep_abs_with_p::<6, 1, 0, 2, 0>(0, PROG) }
    #[kani::unwind(6)] fn c19_mm_0_3_s_n4() [T0 S] : "T|RepMinMax<_,0,3> with skip [4 input positions]" { rep_abs_with_p::<5, 1, 0, 3, 0>(0, PROG) }
    #[kani::unwind(7)] fn c19_mm_0_3_s_n5() [T0 S] : "T|RepMinMax<_,0,3> with skip [5 input positions]" { rep_abs_with_p::<6, 1, 0, 3, 0>(0, PROG) }
    #[kani::unwind(6)] fn c19_mm_1_1_s_n4() [T0 S] : "T|RepMinMax<_,1,1> with skip [4 input positions]" { rep_abs_with_p::<5, 1, 1, 1, 0>(0, PROG) }
    #[kani::unwind(7)] fn c19_mm_1_1_s_n5() [T0 S] : "T|RepMinMax<_,1,1> with skip [5 input positions]" { rep_abs_with_p::<6, 1, 1, 1, 0>(0, PROG) }
    #[kani::unwind(6)] fn c19_mm_1_2_s_n4() [T0 S] : "T|RepMinMax<_,1,2> with skip (pushing child) [4 input positions]" { rep_abs_with_p::<5, 1, 1, 2, 1>(0, PROG) }
    #[kani::unwind(7)] fn c19_mm_1_2_s_n5() [T0 S] : "T|RepMinMax<_,1,2> with skip (pushing child) [5 input positions]" { rep_abs_with_p::<6, 1, 1, 2, 1>(0, PROG) }
    #[kani::unwind(6)] fn c19_mm_1_3_s_n4() [T0 S] : "T|RepMinMax<_,1,3> with skip [4 input positions]" { rep_abs_with_p::<5, 1, 1, 3, 0>(0, PROG) }
    #[kani::unwind(7)] fn c19_mm_1_3_s_n5() [T0 S] : "T|RepMinMax<_,1,3> with skip [5 input positions]" { rep_abs_with_p::<6, 1, 1, 3, 0>(0, PROG) }
    #[kani::unwind(6)] fn c19_mm_2_2_s_n4() [T0 S] : "T|RepMinMax<_,2,2> = RepExact<2> with skip [4 input positions]" { rep_abs_with_p::<5, 1, 2, 2, 0>(0, PROG) }
    #[kani::unwind(7)] fn c19_mm_2_2_s_n5() [T0 S] : "T|RepMinMax<_,2,2> = RepExact<2> with skip [5 input positions]" { rep_abs_with_p::<6, 1, 2, 2, 0>(0, PROG) }
    #[kani::unwind(6)] fn c19_mm_2_3_s_n4() [T0 S] : "T|RepMinMax<_,2,3> with skip (popping child, depth 3) [4 input positions]" { rep_abs_with_p::<5, 1, 2, 3, 2>(3, PROG) }
    #[kani::unwind(7)] fn c19_mm_2_3_s_n5() [T0 S] : "T|RepMinMax<_,2,3> with skip (popping child, depth 3) [5 input positions]" { rep_abs_with_p::<6, 1, 2, 3, 2>(3, PROG) }
    #[kani::unwind(6)] fn c19_mm_3_3_s_n4() [T0 S] : "T|RepMinMax<_,3,3> = RepExact<3> with skip [4 input positions]" { rep_abs_with_p::<5, 1, 3, 3, 0>(0, PROG) }
    #[kani::unwind(7)] fn c19_mm_3_3_s_n5() [T0 S] : "T|RepMinMax<_,3,3> = RepExact<3> with skip [5 input positions]" { rep_abs_with_p::<6, 1, 3, 3, 0>(0, PROG) }
    #[kani::unwind(6)] fn c19_mm_0_2_n_n4() [T0 S] : "T|RepMinMax<_,0,2> without skip [4 input positions]" { rep_abs_with_p::<5, 0, 0, 2, 0>(0, PROG) }
    #[kani::unwind(7)] fn c19_mm_0_2_n_n5() [T0 S] : "T|RepMinMax<_,0,2> without skip [5 input positions]" { rep_abs_with_p::<6, 0, 0, 2, 0>(0, PROG) }
    #[kani::unwind(6)] fn c19_mm_1_2_n_n4() [T0 S] : "T|RepMinMax<_,1,2> without skip [4 input positions]" { rep_abs_with_p::<5, 0, 1, 2, 0>(0, PROG) }
    #[kani::unwind(7)] fn c19_mm_1_2_n_n5() [T0 S] : "T|RepMinMax<_,1,2> without skip [5 input positions]" { rep_abs_with_p::<6, 0, 1, 2, 0>(0, PROG) }
    #[kani::unwind(6)] fn c19_mm_2_3_n_n4() [T0 S] : "T|RepMinMax<_,2,3> without skip [4 input positions]" { rep_abs_with_p::<5, 0, 2, 3, 1>(0, PROG) }
    #[kani::unwind(7)] fn c19_mm_2_3_n_n5() [T0 S] : "T|RepMinMax<_,2,3> without skip [5 input positions]" { rep_abs_with_p::<6, 0, 2, 3, 1>(0, PROG) }
    #[kani::unwind(6)] fn c19_mm_1_3_s_empty_n4() [T0 S] : "T|RepMinMax<_,1,3> with skip, element may match empty: still greedy up to MAX [4 input positions]" { rep_abs_with_p::<5, 1, 1, 3, 0>(0, FREE) }
    #[kani::unwind(7)] fn c19_mm_1_3_s_empty_n5() [T0 S] : "T|RepMinMax<_,1,3> with skip, element may match empty: still greedy up to MAX [5 input positions]" { rep_abs_with_p::<6, 1, 1, 3, 0>(0, FREE) }
    #[kani::unwind(6)] fn c19_mm_0_2_n_empty_pop_n4() [T0 S] : "T|RepMinMax<pop-kind,0,2> no skip, element may match empty (DROP{0,2}): performs MAX stack operations when it can [4 input positions]" { rep_abs_with_p::<5, 0, 0, 2, 2>(3, FREE) }
    #[kani::unwind(7)] fn c19_mm_0_2_n_empty_pop_n5() [T0 S] : "T|RepMinMax<pop-kind,0,2> no skip, element may match empty (DROP{0,2}): performs MAX stack operations when it can [5 input positions]" { rep_abs_with_p::<6, 0, 0, 2, 2>(3, FREE) }
    #[kani::unwind(6)] fn c19_mm_2_3_s_empty_push_n4() [T0 S] : "T|RepMinMax<push-kind,2,3> with skip, element may match empty [4 input positions]" { rep_abs_with_p::<5, 1, 2, 3, 1>(0, FREE) }
    #[kani::unwind(7)] fn c19_mm_2_3_s_empty_push_n5() [T0 S] : "T|RepMinMax<push-kind,2,3> with skip, element may match empty [5 input positions]" { rep_abs_with_p::<6, 1, 2, 3, 1>(0, FREE) }
    #[kani::unwind(6)] fn c19_min_0_s_n4() [T0 S] : "T|RepMin<_,0> with skip [4 input positions]" { repmin_abs_p::<5, 1, 0, 0>(0) }
    #[kani::unwind(7)] fn c19_min_0_s_n5() [T0 S] : "T|RepMin<_,0> with skip [5 input positions]" { repmin_abs_p::<6, 1, 0, 0>(0) }
    #[kani::unwind(6)] fn c19_min_1_s_n4() [T0 S] : "T|RepMin<_,1> with skip [4 input positions]" { repmin_abs_p::<5, 1, 1, 1>(0) }
    #[kani::unwind(7)] fn c19_min_1_s_n5() [T0 S] : "T|RepMin<_,1> with skip [5 input positions]" { repmin_abs_p::<6, 1, 1, 1>(0) }
    #[kani::unwind(6)] fn c19_min_2_s_n4() [T0 S] : "T|RepMin<_,2> with skip [4 input positions]" { repmin_abs_p::<5, 1, 2, 0>(0) }
    #[kani::unwind(7)] fn c19_min_2_s_n5() [T0 S] : "T|RepMin<_,2> with skip [5 input positions]" { repmin_abs_p::<6, 1, 2, 0>(0) }
    #[kani::unwind(6)] fn c19_min_3_s_n4() [T0 S] : "T|RepMin<_,3> with skip [4 input positions]" { repmin_abs_p::<5, 1, 3, 0>(0) }
    #[kani::unwind(7)] fn c19_min_3_s_n5() [T0 S] : "T|RepMin<_,3> with skip [5 input positions]" { repmin_abs_p::<6, 1, 3, 0>(0) }
    #[kani::unwind(6)] fn c19_min_0_n_n4() [T0 S] : "T|RepMin<_,0> without skip [4 input positions]" { repmin_abs_p::<5, 0, 0, 0>(0) }
    #[kani::unwind(7)] fn c19_min_0_n_n5() [T0 S] : "T|RepMin<_,0> without skip [5 input positions]" { repmin_abs_p::<6, 0, 0, 0>(0) }
    #[kani::unwind(6)] fn c19_min_2_n_n4() [T0 S] : "T|RepMin<_,2> without skip [4 input positions]" { repmin_abs_p::<5, 0, 2, 1>(0) }
    #[kani::unwind(7)] fn c19_min_2_n_n5() [T0 S] : "T|RepMin<_,2> without skip [5 input positions]" { repmin_abs_p::<6, 0, 2, 1>(0) }
    #[kani::unwind(7)] fn c19_mm_0_4_s_n5() [T0 S] : "T|RepMinMax<_,0,4> with skip, abstract progressing child [5 input positions]" { rep_abs_with_p::<6, 1, 0, 4, 0>(0, PROG) }
    #[kani::unwind(7)] fn c19_mm_0_4_n_n5() [T0 S] : "T|RepMinMax<_,0,4> without skip, abstract progressing child [5 input positions]" { rep_abs_with_p::<6, 0, 0, 4, 0>(0, PROG) }
    #[kani::unwind(7)] fn c19_mm_1_4_s_n5() [T0 S] : "T|RepMinMax<_,1,4> with skip, abstract progressing child [5 input positions]" { rep_abs_with_p::<6, 1, 1, 4, 0>(0, PROG) }
    #[kani::unwind(7)] fn c19_mm_1_4_n_n5() [T0 S] : "T|RepMinMax<_,1,4> without skip, abstract progressing child [5 input positions]" { rep_abs_with_p::<6, 0, 1, 4, 0>(0, PROG) }
    #[kani::unwind(7)] fn c19_mm_2_4_s_n5() [T0 S] : "T|RepMinMax<_,2,4> with skip, abstract progressing child [5 input positions]" { rep_abs_with_p::<6, 1, 2, 4, 0>(0, PROG) }
    #[kani::unwind(7)] fn c19_mm_2_4_n_n5() [T0 S] : "T|RepMinMax<_,2,4> without skip, abstract progressing child [5 input positions]" { rep_abs_with_p::<6, 0, 2, 4, 0>(0, PROG) }
    #[kani::unwind(7)] fn c19_mm_3_4_s_n5() [T0 S] : "T|RepMinMax<_,3,4> with skip, abstract progressing child [5 input positions]" { rep_abs_with_p::<6, 1, 3, 4, 0>(0, PROG) }
    #[kani::unwind(7)] fn c19_mm_3_4_n_n5() [T0 S] : "T|RepMinMax<_,3,4> without skip, abstract progressing child [5 input positions]" { rep_abs_with_p::<6, 0, 3, 4, 0>(0, PROG) }
    #[kani::unwind(7)] fn c19_mm_4_4_s_n5() [T0 S] : "T|RepMinMax<_,4,4> with skip, abstract progressing child [5 input positions]" { rep_abs_with_p::<6, 1, 4, 4, 0>(0, PROG) }
    #[kani::unwind(7)] fn c19_mm_4_4_n_n5() [T0 S] : "T|RepMinMax<_,4,4> without skip, abstract progressing child [5 input positions]" { rep_abs_with_p::<6, 0, 4, 4, 0>(0, PROG) }
    #[kani::unwind(7)] fn c19_min_4_s_n5() [T0 S] : "T|RepMin<_,4> with skip [5 input positions]" { repmin_abs_p::<6, 1, 4, 0>(0) }
    #[kani::unwind(7)] fn c19_mm_0_4_s_empty_n5() [T0 S] : "T|RepMinMax<_,0,4> with skip, element may match empty [5 input positions]" { rep_abs_with_p::<6, 1, 0, 4, 1>(0, FREE) }
}
