//! Stub sets (Kani `-Z stubbing`). Every stub is part of the claim of the harness that uses it.
//!
//! T0: `Tracker::{record, empty_stack, out_of_bound, repeat_too_many_times}` -> no-ops
//!     (the BTreeMap behind them does not get through CBMC; no combinator reads tracker
//!     state; non-interference is discharged by the C10 harnesses).
//! T1: `Tracker::{get_entry, clear}` -> one static slot of fixed arrays (C10 only).
//! S : `pest::Stack::{push,pop,peek,len,snapshot,clear_snapshot,restore}` -> fixed-capacity
//!     copy-on-snapshot array model (capacity CAP, snapshot depth DEPTH; exceeding either is
//!     assumed away and stated as a bound). Conformance of the real Stack: C05-S harnesses.
//! F : `alloc::fmt::format` -> empty String.
#![allow(static_mut_refs)]
use crate::nd;
use pest_typed::tracker::Tracker;
use pest_typed::{Input, RuleType};

// ---------------------------------------------------------------- T0
pub fn t_record<'i, R: RuleType>(
    _t: &mut Tracker<'i, R>,
    _rule: R,
    _pos: impl Input<'i>,
    _succeeded: bool,
) where
    'i: 'i,
{
}
pub fn t_empty_stack<'i, R: RuleType>(_t: &mut Tracker<'i, R>, _pos: impl Input<'i>)
where
    'i: 'i,
{
}
pub fn t_out_of_bound<'i, R: RuleType>(
    _t: &mut Tracker<'i, R>,
    _pos: impl Input<'i>,
    _start: i32,
    _end: Option<i32>,
) where
    'i: 'i,
{
}
pub fn t_repeat_too_many_times<'i, R: RuleType>(_t: &mut Tracker<'i, R>, _pos: impl Input<'i>)
where
    'i: 'i,
{
}

// ---------------------------------------------------------------- S
pub const CAP: usize = 6;
pub const DEPTH: usize = 6;
/// One stack entry: the raw words of a `Span<'i>` (ptr, len, start, end).
pub type Cell = [usize; 4];

#[derive(Clone, Copy)]
pub struct StackModel {
    pub data: [Cell; CAP],
    pub len: usize,
    pub snap_data: [[Cell; CAP]; DEPTH],
    pub snap_len: [usize; DEPTH],
    pub nsnaps: usize,
}
pub const EMPTY_MODEL: StackModel = StackModel {
    data: [[0; 4]; CAP],
    len: 0,
    snap_data: [[[0; 4]; CAP]; DEPTH],
    snap_len: [0; DEPTH],
    nsnaps: 0,
};
pub static mut SM: StackModel = EMPTY_MODEL;

pub fn stack_reset() {
    unsafe { SM = EMPTY_MODEL }
}
pub fn stack_get() -> StackModel {
    unsafe { SM }
}
pub fn stack_set(m: StackModel) {
    unsafe { SM = m }
}
pub fn stack_depth() -> usize {
    unsafe { SM.len }
}
/// (start, end) offsets of entry `i` counted from the bottom.
pub fn stack_entry(i: usize) -> (usize, usize) {
    unsafe { (SM.data[i][2], SM.data[i][3]) }
}
fn to_cell<T>(e: &T) -> Cell {
    assert!(core::mem::size_of::<T>() == core::mem::size_of::<Cell>());
    unsafe { core::mem::transmute_copy::<T, Cell>(e) }
}

pub fn s_push<T: Clone>(_s: &mut pest::Stack<T>, elem: T) {
    unsafe {
        nd::assume(SM.len < CAP);
        SM.data[SM.len] = to_cell(&elem);
        SM.len += 1;
    }
    core::mem::forget(elem);
}
pub fn s_pop<T: Clone>(_s: &mut pest::Stack<T>) -> Option<T> {
    unsafe {
        if SM.len == 0 {
            None
        } else {
            SM.len -= 1;
            let c = SM.data[SM.len];
            Some(core::mem::transmute_copy::<Cell, T>(&c))
        }
    }
}
pub fn s_peek<T: Clone>(_s: &pest::Stack<T>) -> Option<&T> {
    unsafe {
        if SM.len == 0 {
            None
        } else {
            let p = &SM.data[SM.len - 1] as *const Cell as *const T;
            Some(&*p)
        }
    }
}
pub fn s_len<T: Clone>(_s: &pest::Stack<T>) -> usize {
    unsafe { SM.len }
}
pub fn s_snapshot<T: Clone>(_s: &mut pest::Stack<T>) {
    unsafe {
        nd::assume(SM.nsnaps < DEPTH);
        SM.snap_data[SM.nsnaps] = SM.data;
        SM.snap_len[SM.nsnaps] = SM.len;
        SM.nsnaps += 1;
    }
}
pub fn s_clear_snapshot<T: Clone>(_s: &mut pest::Stack<T>) {
    unsafe {
        if SM.nsnaps > 0 {
            SM.nsnaps -= 1;
        }
    }
}
pub fn s_restore<T: Clone>(_s: &mut pest::Stack<T>) {
    unsafe {
        if SM.nsnaps > 0 {
            SM.nsnaps -= 1;
            SM.data = SM.snap_data[SM.nsnaps];
            SM.len = SM.snap_len[SM.nsnaps];
        } else {
            SM.len = 0;
        }
    }
}

// ---------------------------------------------------------------- F
pub fn f_format(_args: core::fmt::Arguments<'_>) -> String {
    String::new()
}

// ---------------------------------------------------------------- T1
use pest_typed::tracker::SpecialError;
pub type Slot = (Vec<crate::common::R>, Vec<crate::common::R>, Vec<SpecialError>);
/// The single attempts slot that replaces the tracker's BTreeMap under T1 (the `by <upper rule>` grouping
/// key is thereby outside the claim).
pub static mut T1_SLOT: Slot = (Vec::new(), Vec::new(), Vec::new());
pub fn t1_get_entry<'i, 's, R: RuleType>(
    _t: &'s mut Tracker<'i, R>,
    _pos: impl Input<'i>,
) -> &'s mut (Vec<R>, Vec<R>, Vec<SpecialError>)
where
    'i: 'i,
{
    // only ever instantiated with R = common::R (asserted by size)
    assert!(core::mem::size_of::<R>() == core::mem::size_of::<crate::common::R>());
    unsafe { &mut *(&raw mut T1_SLOT as *mut (Vec<R>, Vec<R>, Vec<SpecialError>)) }
}
pub fn t1_clear<'i, R: RuleType>(_t: &mut Tracker<'i, R>)
where
    'i: 'i,
{
    unsafe {
        T1_SLOT.0.clear();
        T1_SLOT.1.clear();
        T1_SLOT.2.clear();
    }
}
pub fn t1_reset() {
    unsafe {
        T1_SLOT.0.clear();
        T1_SLOT.1.clear();
        T1_SLOT.2.clear();
    }
}

// ---------------------------------------------------------------- T2 (Layer G): rule bookkeeping of the tracker
/// `Tracker::record_during_with` reduced to running the closure: drops the (rule, position, has_children)
/// stack of the tracker (a real `Vec`), which only feeds error reports (C10 exercises it for real).
pub fn t_record_during_with<'i, R: RuleType, Ret, I: Input<'i>>(
    t: &mut Tracker<'i, R>,
    _pos: I,
    f: impl FnOnce(&mut Tracker<'i, R>) -> Option<Ret>,
    _rule: R,
) -> Option<Ret>
where
    'i: 'i,
{
    f(t)
}

/// The recorded attempts (expected rules, unexpected rules, number of special errors) of a finished tracker.
/// Under Kani the BTreeMap is cut (T1) and the single slot holds them; in a native replay the real map does.
#[cfg(kani)]
pub fn attempts_of(
    _map: &std::collections::BTreeMap<Option<crate::common::R>, (Vec<crate::common::R>, Vec<crate::common::R>, Vec<SpecialError>)>,
) -> (Vec<crate::common::R>, Vec<crate::common::R>, usize) {
    unsafe { (T1_SLOT.0.clone(), T1_SLOT.1.clone(), T1_SLOT.2.len()) }
}
#[cfg(not(kani))]
pub fn attempts_of(
    map: &std::collections::BTreeMap<Option<crate::common::R>, (Vec<crate::common::R>, Vec<crate::common::R>, Vec<SpecialError>)>,
) -> (Vec<crate::common::R>, Vec<crate::common::R>, usize) {
    let (mut p, mut n, mut k) = (vec![], vec![], 0);
    for (_, (a, b, c)) in map.iter() {
        p.extend(a.iter().cloned());
        n.extend(b.iter().cloned());
        k += c.len();
    }
    (p, n, k)
}

/// Generic-rule-type variant for Layer G (rule ids through `rid`).
#[cfg(kani)]
pub fn attempts_of_g<RR: RuleType>(
    _map: &std::collections::BTreeMap<Option<RR>, (Vec<RR>, Vec<RR>, Vec<SpecialError>)>,
    rid: fn(RR) -> u8,
) -> (Vec<u8>, Vec<u8>) {
    assert!(core::mem::size_of::<RR>() == core::mem::size_of::<crate::common::R>());
    unsafe {
        let slot = &*(&raw const T1_SLOT as *const (Vec<RR>, Vec<RR>, Vec<SpecialError>));
        (slot.0.iter().map(|r| rid(*r)).collect(), slot.1.iter().map(|r| rid(*r)).collect())
    }
}
#[cfg(not(kani))]
pub fn attempts_of_g<RR: RuleType>(
    map: &std::collections::BTreeMap<Option<RR>, (Vec<RR>, Vec<RR>, Vec<SpecialError>)>,
    rid: fn(RR) -> u8,
) -> (Vec<u8>, Vec<u8>) {
    let (mut p, mut n) = (vec![], vec![]);
    for (_, (a, b, _)) in map.iter() {
        p.extend(a.iter().map(|r| rid(*r)));
        n.extend(b.iter().map(|r| rid(*r)));
    }
    (p, n)
}

// ---------------------------------------------------------------- E (entry-point wrappers)
/// `Tracker::collect` (builds the pest `Error` through core::fmt: out of CBMC's reach) is cut by ending the
/// path: harnesses under E decide only what the wrappers do when they return `Ok` — "never success with
/// unread input" — and say nothing about inputs they reject.
pub fn t_collect<'i, R: RuleType>(_t: Tracker<'i, R>) -> pest_typed::error::Error<R>
where
    'i: 'i,
{
    nd::assume(false);
    loop {}
}
