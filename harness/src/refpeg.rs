//! Reference PEG evaluator ("short reference model"): heap-free, by-value state, full
//! backtracking by construction (a failed attempt returns `None` and the caller still holds
//! the old state), empty-stack operations fail, implicit skipping and atomicity exactly as
//! pest documents them. The types mirror the real combinators one to one, so a harness
//! instantiates the real type `T` and the reference type `RT` side by side.
//!
//! For the derived corpus grammars the reference types are emitted by `refgen` from the
//! *unoptimized* pest_meta AST and validated against the parser pest itself generates
//! (native enumeration, `refcheck`). This file is never the code under test.
use crate::nd;
use core::marker::PhantomData;
use pest_typed::{StringArrayWrapper, StringWrapper};

pub const RCAP: usize = 6;
pub const MAXTOK: usize = 10;

#[derive(Clone, Copy, PartialEq, Eq, Debug)]
pub struct Tok {
    pub rule: u8,
    pub start: u8,
    pub end: u8,
    pub depth: u8,
}
pub const NOTOK: Tok = Tok { rule: 0, start: 0, end: 0, depth: 0 };

#[derive(Clone, Copy, Debug)]
pub struct RefState {
    pub pos: usize,
    /// stack entries (start, end), bottom first
    pub st: [(usize, usize); RCAP],
    pub sl: usize,
    /// emitted tokens, pre-order, with depth (pest's tree minus descendants of @/$ rules)
    pub toks: [Tok; MAXTOK],
    pub nt: usize,
    pub depth: u8,
    /// token emission off (inside lookahead or inside an atomic / compound-atomic rule)
    pub mute: bool,
    /// number of iterations of the most recently completed repetition
    pub last_reps: usize,
    /// a bound of this model was exceeded (stack capacity or token buffer): the run is outside the claim
    pub overflow: bool,
}
impl RefState {
    pub fn new(pos: usize) -> Self {
        RefState {
            pos,
            st: [(0, 0); RCAP],
            sl: 0,
            toks: [NOTOK; MAXTOK],
            nt: 0,
            depth: 0,
            mute: false,
            last_reps: 0,
            overflow: false,
        }
    }
    pub fn push(mut self, e: (usize, usize)) -> Self {
        if self.sl < RCAP {
            self.st[self.sl] = e;
            self.sl += 1;
        } else {
            self.overflow = true;
        }
        self
    }
}

#[derive(Clone, Copy)]
pub struct Ctx<'a> {
    pub b: &'a [u8],
    pub start: usize,
    pub end: usize,
}

pub trait RefNode {
    fn eval(c: Ctx<'_>, s: RefState) -> Option<RefState>;
}

fn lit_at(c: Ctx<'_>, p: usize, lit: &[u8]) -> Option<usize> {
    if p + lit.len() > c.end {
        return None;
    }
    let mut i = 0;
    while i < lit.len() {
        if c.b[p + i] != lit[i] {
            return None;
        }
        i += 1;
    }
    Some(p + lit.len())
}
/// Text-vs-text comparison: does b[p..] start with b[s..e]?
fn text_at(c: Ctx<'_>, p: usize, s: usize, e: usize) -> Option<usize> {
    let n = e - s;
    if p + n > c.end {
        return None;
    }
    let mut i = 0;
    while i < n {
        if c.b[p + i] != c.b[s + i] {
            return None;
        }
        i += 1;
    }
    Some(p + n)
}
/// Decode the char at `p` (the text is valid UTF-8 and `p` a boundary).
pub fn char_at(c: Ctx<'_>, p: usize) -> Option<(u32, usize)> {
    if p >= c.end {
        return None;
    }
    let b0 = c.b[p] as u32;
    if b0 < 0x80 {
        Some((b0, 1))
    } else if b0 < 0xE0 {
        Some((((b0 & 0x1F) << 6) | (c.b[p + 1] as u32 & 0x3F), 2))
    } else if b0 < 0xF0 {
        Some((((b0 & 0x0F) << 12) | ((c.b[p + 1] as u32 & 0x3F) << 6) | (c.b[p + 2] as u32 & 0x3F), 3))
    } else {
        Some((
            ((b0 & 0x07) << 18)
                | ((c.b[p + 1] as u32 & 0x3F) << 12)
                | ((c.b[p + 2] as u32 & 0x3F) << 6)
                | (c.b[p + 3] as u32 & 0x3F),
            4,
        ))
    }
}

// ------------------------------------------------------------------ terminals
pub struct RStr<W>(PhantomData<W>);
impl<W: StringWrapper> RefNode for RStr<W> {
    fn eval(c: Ctx<'_>, mut s: RefState) -> Option<RefState> {
        s.pos = lit_at(c, s.pos, W::CONTENT.as_bytes())?;
        Some(s)
    }
}
pub struct RInsens<W>(PhantomData<W>);
impl<W: StringWrapper> RefNode for RInsens<W> {
    fn eval(c: Ctx<'_>, mut s: RefState) -> Option<RefState> {
        let lit = W::CONTENT.as_bytes();
        if s.pos + lit.len() > c.end {
            return None;
        }
        let mut i = 0;
        while i < lit.len() {
            let (x, y) = (c.b[s.pos + i], lit[i]);
            let fold = |v: u8| if v >= b'A' && v <= b'Z' { v + 32 } else { v };
            if fold(x) != fold(y) {
                return None;
            }
            i += 1;
        }
        // the matched prefix must end on a char boundary (pest slices the &str)
        let e = s.pos + lit.len();
        if e < c.end && (c.b[e] & 0xC0) == 0x80 {
            return None;
        }
        s.pos = e;
        Some(s)
    }
}
pub struct RRange<const MIN: char, const MAX: char>;
impl<const MIN: char, const MAX: char> RefNode for RRange<MIN, MAX> {
    fn eval(c: Ctx<'_>, mut s: RefState) -> Option<RefState> {
        let (ch, n) = char_at(c, s.pos)?;
        if ch >= MIN as u32 && ch <= MAX as u32 {
            s.pos += n;
            Some(s)
        } else {
            None
        }
    }
}
pub struct RAny;
impl RefNode for RAny {
    fn eval(c: Ctx<'_>, mut s: RefState) -> Option<RefState> {
        let (_, n) = char_at(c, s.pos)?;
        s.pos += n;
        Some(s)
    }
}
pub struct RSoi;
impl RefNode for RSoi {
    fn eval(c: Ctx<'_>, s: RefState) -> Option<RefState> {
        if s.pos == c.start { Some(s) } else { None }
    }
}
pub struct REoiRaw;
impl RefNode for REoiRaw {
    fn eval(c: Ctx<'_>, s: RefState) -> Option<RefState> {
        if s.pos == c.end { Some(s) } else { None }
    }
}
pub struct RNewline;
impl RefNode for RNewline {
    fn eval(c: Ctx<'_>, mut s: RefState) -> Option<RefState> {
        if let Some(p) = lit_at(c, s.pos, b"\r\n") {
            s.pos = p;
            return Some(s);
        }
        if let Some(p) = lit_at(c, s.pos, b"\n") {
            s.pos = p;
            return Some(s);
        }
        if let Some(p) = lit_at(c, s.pos, b"\r") {
            s.pos = p;
            return Some(s);
        }
        None
    }
}
/// `(!(s1 | s2 | …) ~ ANY)*` as pest's optimizer rewrites it: stop at the first needle inside the input range, else at the end.
pub struct RSkipUntil<S>(PhantomData<S>);
impl<S: StringArrayWrapper> RefNode for RSkipUntil<S> {
    fn eval(c: Ctx<'_>, mut s: RefState) -> Option<RefState> {
        let mut p = s.pos;
        while p < c.end {
            // only char boundaries are candidate stops
            if (c.b[p] & 0xC0) != 0x80 {
                let mut k = 0;
                while k < S::CONTENT.len() {
                    if lit_at(c, p, S::CONTENT[k].as_bytes()).is_some() {
                        s.pos = p;
                        return Some(s);
                    }
                    k += 1;
                }
            }
            p += 1;
        }
        s.pos = c.end;
        Some(s)
    }
}
pub struct RSkipChar<const N: usize>;
impl<const N: usize> RefNode for RSkipChar<N> {
    fn eval(c: Ctx<'_>, mut s: RefState) -> Option<RefState> {
        let mut i = 0;
        while i < N {
            let (_, n) = char_at(c, s.pos)?;
            s.pos += n;
            i += 1;
        }
        Some(s)
    }
}
pub struct REmpty;
impl RefNode for REmpty {
    fn eval(_c: Ctx<'_>, s: RefState) -> Option<RefState> {
        Some(s)
    }
}
pub struct RFail;
impl RefNode for RFail {
    fn eval(_c: Ctx<'_>, _s: RefState) -> Option<RefState> {
        None
    }
}

// ------------------------------------------------------------------ stack
pub struct RPush<T>(PhantomData<T>);
impl<T: RefNode> RefNode for RPush<T> {
    fn eval(c: Ctx<'_>, s: RefState) -> Option<RefState> {
        let start = s.pos;
        let r = T::eval(c, s)?;
        let e = r.pos;
        Some(r.push((start, e)))
    }
}
pub struct RPeek;
impl RefNode for RPeek {
    fn eval(c: Ctx<'_>, mut s: RefState) -> Option<RefState> {
        if s.sl == 0 {
            return None;
        }
        let (a, b) = s.st[s.sl - 1];
        s.pos = text_at(c, s.pos, a, b)?;
        Some(s)
    }
}
pub struct RPop;
impl RefNode for RPop {
    fn eval(c: Ctx<'_>, mut s: RefState) -> Option<RefState> {
        if s.sl == 0 {
            return None;
        }
        let (a, b) = s.st[s.sl - 1];
        s.sl -= 1;
        s.pos = text_at(c, s.pos, a, b)?;
        Some(s)
    }
}
pub struct RDrop;
impl RefNode for RDrop {
    fn eval(_c: Ctx<'_>, mut s: RefState) -> Option<RefState> {
        if s.sl == 0 {
            return None;
        }
        s.sl -= 1;
        Some(s)
    }
}
pub struct RPeekAll;
impl RefNode for RPeekAll {
    fn eval(c: Ctx<'_>, mut s: RefState) -> Option<RefState> {
        let mut i = s.sl;
        while i > 0 {
            let (a, b) = s.st[i - 1];
            s.pos = text_at(c, s.pos, a, b)?;
            i -= 1;
        }
        Some(s)
    }
}
pub struct RPopAll;
impl RefNode for RPopAll {
    fn eval(c: Ctx<'_>, s: RefState) -> Option<RefState> {
        let mut r = RPeekAll::eval(c, s)?;
        r.sl = 0;
        Some(r)
    }
}
/// `PEEK[A..B]` (HAS_B = false: `PEEK[A..]`): entries lo..hi bottom to top.
pub struct RPeekSlice<const A: i32, const B: i32, const HAS_B: bool>;
impl<const A: i32, const B: i32, const HAS_B: bool> RefNode for RPeekSlice<A, B, HAS_B> {
    fn eval(c: Ctx<'_>, mut s: RefState) -> Option<RefState> {
        let d = s.sl as i64;
        let norm = |i: i64| -> Option<i64> {
            if i > d || i < -d { None } else if i >= 0 { Some(i) } else { Some(d + i) }
        };
        let lo = norm(A as i64)?;
        let hi = if HAS_B { norm(B as i64)? } else { d };
        let mut i = lo;
        while i < hi {
            let (a, b) = s.st[i as usize];
            s.pos = text_at(c, s.pos, a, b)?;
            i += 1;
        }
        Some(s)
    }
}

// ------------------------------------------------------------------ combinators
macro_rules! rseq {
    ($name:ident, $T0:ident, $($T:ident),*) => {
        /// Sequence; `SKIP = 1` puts the implicit skip `SK` between elements.
        pub struct $name<SK, const SKIP: usize, $T0, $($T),*>(PhantomData<(SK, $T0, $($T),*)>);
        impl<SK: RefNode, const SKIP: usize, $T0: RefNode, $($T: RefNode),*> RefNode for $name<SK, SKIP, $T0, $($T),*> {
            fn eval(c: Ctx<'_>, s: RefState) -> Option<RefState> {
                let s = $T0::eval(c, s)?;
                $(
                    let s = if SKIP > 0 { SK::eval(c, s)? } else { s };
                    let s = $T::eval(c, s)?;
                )*
                Some(s)
            }
        }
    };
}
rseq!(RSeq2, T0, T1);
rseq!(RSeq3, T0, T1, T2);
rseq!(RSeq4, T0, T1, T2, T3);
rseq!(RSeq5, T0, T1, T2, T3, T4);
rseq!(RSeq6, T0, T1, T2, T3, T4, T5);
rseq!(RSeq13, T0, T1, T2, T3, T4, T5, T6, T7, T8, T9, T10, T11, T12);

macro_rules! rchoice {
    ($name:ident, $($T:ident),*) => {
        /// Ordered choice; every alternative starts from the original state.
        pub struct $name<$($T),*>(PhantomData<($($T),*)>);
        impl<$($T: RefNode),*> RefNode for $name<$($T),*> {
            fn eval(c: Ctx<'_>, s: RefState) -> Option<RefState> {
                $( if let Some(r) = $T::eval(c, s) { return Some(r); } )*
                None
            }
        }
    };
}
rchoice!(RChoice2, T0, T1);
rchoice!(RChoice3, T0, T1, T2);
rchoice!(RChoice4, T0, T1, T2, T3);
rchoice!(RChoice5, T0, T1, T2, T3, T4);
rchoice!(RChoice13, T0, T1, T2, T3, T4, T5, T6, T7, T8, T9, T10, T11, T12);

/// Which alternative of an ordered choice is taken (least index that matches); `None` if none.
pub fn first_match<const K: usize>(alts: [Option<RefState>; K]) -> Option<usize> {
    let mut i = 0;
    while i < K {
        if alts[i].is_some() {
            return Some(i);
        }
        i += 1;
    }
    None
}

pub struct ROpt<T>(PhantomData<T>);
impl<T: RefNode> RefNode for ROpt<T> {
    fn eval(c: Ctx<'_>, s: RefState) -> Option<RefState> {
        match T::eval(c, s) {
            Some(r) => Some(r),
            None => Some(s),
        }
    }
}
/// Greedy repetition, MIN..=MAX iterations (MAX = usize::MAX: unbounded). Implicit skip before every
/// iteration but the first when SKIP = 1; a skip before an iteration that then fails is given back.
/// ITER_CAP bounds the loop for the model checker (an input of n bytes allows at most n progressing
/// iterations; harnesses pass n + 1 and the unwinding assertion checks it).
pub struct RRep<SK, const SKIP: usize, T, const MIN: usize, const MAX: usize>(PhantomData<(SK, T)>);
impl<SK: RefNode, const SKIP: usize, T: RefNode, const MIN: usize, const MAX: usize> RefNode
    for RRep<SK, SKIP, T, MIN, MAX>
{
    fn eval(c: Ctx<'_>, s: RefState) -> Option<RefState> {
        let mut cur = s;
        let mut n = 0usize;
        while n < MAX {
            let before = if n > 0 && SKIP > 0 {
                match SK::eval(c, cur) {
                    Some(x) => x,
                    None => break,
                }
            } else {
                cur
            };
            match T::eval(c, before) {
                Some(r) => {
                    // pest's validator rejects repetitions whose body cannot progress; with an
                    // unbounded MAX a non-progressing body would loop forever in pest as well.
                    if MAX == usize::MAX && r.pos == cur.pos && r.sl == cur.sl {
                        cur = r;
                        n += 1;
                        break;
                    }
                    cur = r;
                    n += 1;
                }
                None => break,
            }
        }
        if n < MIN {
            return None;
        }
        cur.last_reps = n;
        Some(cur)
    }
}
pub type RStar<SK, const SKIP: usize, T> = RRep<SK, SKIP, T, 0, { usize::MAX }>;
pub type RPlus<SK, const SKIP: usize, T> = RRep<SK, SKIP, T, 1, { usize::MAX }>;

pub struct RPos<T>(PhantomData<T>);
impl<T: RefNode> RefNode for RPos<T> {
    fn eval(c: Ctx<'_>, s: RefState) -> Option<RefState> {
        let mut t = s;
        t.mute = true;
        match T::eval(c, t) {
            Some(_) => Some(s),
            None => None,
        }
    }
}
pub struct RNeg<T>(PhantomData<T>);
impl<T: RefNode> RefNode for RNeg<T> {
    fn eval(c: Ctx<'_>, s: RefState) -> Option<RefState> {
        let mut t = s;
        t.mute = true;
        match T::eval(c, t) {
            Some(_) => None,
            None => Some(s),
        }
    }
}
/// `[T; N]`, `(T1, T2)`: plain concatenations without skipping.
pub struct RArr<T, const N: usize>(PhantomData<T>);
impl<T: RefNode, const N: usize> RefNode for RArr<T, N> {
    fn eval(c: Ctx<'_>, s: RefState) -> Option<RefState> {
        let mut cur = s;
        let mut i = 0;
        while i < N {
            cur = T::eval(c, cur)?;
            i += 1;
        }
        Some(cur)
    }
}
pub struct RPair<A, B>(PhantomData<(A, B)>);
impl<A: RefNode, B: RefNode> RefNode for RPair<A, B> {
    fn eval(c: Ctx<'_>, s: RefState) -> Option<RefState> {
        B::eval(c, A::eval(c, s)?)
    }
}

// ------------------------------------------------------------------ rules and tokens
/// kind: 0 normal, 1 silent `_`, 2 atomic `@`, 3 compound-atomic `$`, 4 non-atomic `!`, 5 silent skip rule.
/// Emits the token (rule, start, end, depth) in pre-order unless muted; mutes everything below
/// an atomic or compound-atomic rule (pest-typed's documented pruning). The atomicity of the
/// *expression* is a static matter: refgen instantiates `Inner` with the right SKIP constants.
pub struct RRule<const ID: u8, const KIND: u8, Inner>(PhantomData<Inner>);
impl<const ID: u8, const KIND: u8, Inner: RefNode> RefNode for RRule<ID, KIND, Inner> {
    fn eval(c: Ctx<'_>, s: RefState) -> Option<RefState> {
        if KIND == 1 {
            return Inner::eval(c, s);
        }
        if KIND == 5 {
            // silent skip rule (WHITESPACE / COMMENT declared `_`): no token of its own, and pest matches
            // its expression atomically, so nothing below it emits tokens either
            let mut t = s;
            t.mute = true;
            let mut r = Inner::eval(c, t)?;
            r.mute = s.mute;
            return Some(r);
        }
        let mut t = s;
        let emit = !s.mute;
        let slot = t.nt;
        if emit {
            if t.nt < MAXTOK {
                t.toks[slot] = Tok { rule: ID, start: s.pos as u8, end: 0, depth: s.depth };
                t.nt += 1;
            } else {
                t.overflow = true;
            }
            t.depth += 1;
        }
        if KIND == 2 || KIND == 3 {
            t.mute = true;
        }
        let mut r = Inner::eval(c, t)?;
        r.mute = s.mute;
        r.depth = s.depth;
        if emit && slot < MAXTOK {
            r.toks[slot].end = r.pos as u8;
        }
        Some(r)
    }
}

// ------------------------------------------------------------------ abstract children
pub const ABS_IDS: usize = 4;
/// table capacity (positions 0..=5); `abs_init` fills positions 0..=3, `abs_init_p::<P>` positions 0..P
pub const ABS_POS: usize = 6;
/// Outcome tables of the abstract children: `TABLE[id][pos][min(depth,2)]` = 0 (fail) or 1 + advance.
/// Filled with symbolic values by `abs_init`; read by both the real `Abs` node and `RAbs`.
pub static mut TABLE: [[[u8; 3]; ABS_POS]; ABS_IDS] = [[[0; 3]; ABS_POS]; ABS_IDS];

/// Make every table entry symbolic: at position p over an input of n bytes a child may fail or
/// advance by 0..=n-p. `min_adv` forces successful outcomes to advance at least that much
/// (1 for repetition bodies: what pest's validator guarantees).
pub fn abs_init(n: usize, min_adv: [u8; ABS_IDS]) {
    assert!(n == 3);
    abs_init_p::<4>(min_adv)
}
/// Same for inputs of P - 1 positions (P table rows per child).
pub fn abs_init_p<const P: usize>(min_adv: [u8; ABS_IDS]) {
    let n = P - 1;
    let mut id = 0;
    while id < ABS_IDS {
        let mut p = 0;
        while p < P {
            let mut d = 0;
            while d < 3 {
                let v = nd::u8();
                nd::assume(p <= n && (v as usize) <= n - p + 1);
                nd::assume(v == 0 || v > min_adv[id]);
                unsafe { TABLE[id][p][d] = v };
                d += 1;
            }
            p += 1;
        }
        id += 1;
    }
}
pub fn abs_outcome(id: usize, kind: u8, pos: usize, depth: usize) -> u8 {
    let d = if kind == 3 { if depth > 2 { 2 } else { depth } } else { 0 };
    unsafe { TABLE[id][pos][d] }
}
/// KIND: 0 pure, 1 push-on-success, 2 pop-then-match (fails on empty stack), 3 outcome depends on stack depth.
pub struct RAbs<const ID: usize, const KIND: u8>;
impl<const ID: usize, const KIND: u8> RefNode for RAbs<ID, KIND> {
    fn eval(_c: Ctx<'_>, mut s: RefState) -> Option<RefState> {
        if KIND == 2 {
            if s.sl == 0 {
                return None;
            }
            s.sl -= 1;
        }
        let v = abs_outcome(ID, KIND, s.pos, s.sl);
        if v == 0 {
            return None;
        }
        let start = s.pos;
        s.pos += (v - 1) as usize;
        if KIND == 1 {
            let e = s.pos;
            s = s.push((start, e));
        }
        Some(s)
    }
}
