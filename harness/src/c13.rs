//! C13 — Span operations agree with pest's Span.
use crate::nd;
use pest_typed::Span;

fn span_new<const L: usize>() {
    let buf = nd::utf8_buf::<L>();
    let s = nd::as_str(&buf);
    let a = nd::usize();
    let b = nd::usize();
    let mine = Span::new(s, a, b);
    let theirs = pest::Span::new(s, a, b);
    cover!(mine.is_some() && a < b, "some nonempty span");
    cover!(mine.is_none() && a <= b && b <= L, "rejected non-boundary");
    match (mine, theirs) {
        (None, None) => {}
        (Some(m), Some(t)) => {
            assert!(m.start() == t.start());
            assert!(m.end() == t.end());
            assert!(m.start() == a && m.end() == b);
            let ms = m.as_str();
            let ts = t.as_str();
            assert!(ms.as_ptr() == ts.as_ptr() && ms.len() == ts.len());
        }
        _ => panic!("Span::new verdict differs from pest"),
    }
}

harnesses! {
    #[kani::unwind(5)]
    fn c13_span_new_3() [] : "Q|Span::new vs pest::Span::new; arbitrary UTF-8, 3 bytes" { span_new::<3>() }
    #[kani::unwind(6)]
    fn c13_w_span_new_4() [] : "W|witness: must fail" { span_new::<4>(); assert!(false); }
    #[kani::unwind(6)]
    fn c13_span_new_4() [] : "Q|Span::new vs pest::Span::new; arbitrary UTF-8, 4 bytes, unconstrained usize a,b" { span_new::<4>() }
}
