//! C13 — Span operations agree with pest's Span (real code, no stubs; pest 2.7.14 is the oracle).
use crate::nd;
use pest_typed::Span;

fn same(m: Option<Span<'_>>, t: Option<pest::Span<'_>>) {
    match (m, t) {
        (None, None) => {}
        (Some(m), Some(t)) => {
            assert!(m.start() == t.start());
            assert!(m.end() == t.end());
            let ms = m.as_str();
            let ts = t.as_str();
            assert!(ms.as_ptr() == ts.as_ptr() && ms.len() == ts.len());
        }
        _ => panic!("Some/None verdict differs from pest"),
    }
}

fn span_new<const L: usize>() {
    let buf = nd::utf8_buf::<L>();
    let s = nd::as_str(&buf);
    let a = nd::usize();
    let b = nd::usize();
    let mine = Span::new(s, a, b);
    let theirs = pest::Span::new(s, a, b);
    cover!(mine.is_some() && a < b, "some nonempty span");
    cover!(mine.is_none() && a <= b && b <= L, "rejected non-boundary");
    if let Some(m) = mine {
        assert!(m.start() == a && m.end() == b);
        assert!(s.is_char_boundary(a) && s.is_char_boundary(b) && a <= b && b <= L);
    } else {
        assert!(!(a <= b && b <= L && s.is_char_boundary(a) && s.is_char_boundary(b)));
    }
    same(mine, theirs);
}

/// A symbolic valid span of `s` in both libraries.
fn both<'a>(s: &'a str) -> (Span<'a>, pest::Span<'a>) {
    let a = nd::usize();
    let b = nd::usize();
    let m = Span::new(s, a, b);
    let t = pest::Span::new(s, a, b);
    nd::assume(m.is_some() && t.is_some());
    (m.unwrap(), t.unwrap())
}

fn span_get<const L: usize>(form: u8) {
    let buf = nd::utf8_buf::<L>();
    let s = nd::as_str(&buf);
    let (m, t) = both(s);
    let x = nd::usize();
    let y = nd::usize();
    // `..=usize::MAX` overflows identically in pest and pest-typed (debug: panic); outside the claim.
    nd::assume(y < usize::MAX);
    let (rm, rt) = match form {
        0 => (m.get(x..y), t.get(x..y)),
        1 => (m.get(x..=y), t.get(x..=y)),
        2 => (m.get(x..), t.get(x..)),
        3 => (m.get(..y), t.get(..y)),
        4 => (m.get(..=y), t.get(..=y)),
        _ => (m.get(..), t.get(..)),
    };
    cover!(rm.is_some() && m.start() > 0, "sub-span of an offset span");
    cover!(rm.is_none() || form == 5, "rejected sub-range (n/a for ..)");
    if let Some(r) = rm {
        // independent spec: relative to the span's own text
        assert!(r.start() >= m.start() && r.end() <= m.end() && r.start() <= r.end());
        assert!(s.is_char_boundary(r.start()) && s.is_char_boundary(r.end()));
        if form == 0 {
            assert!(r.start() == m.start() + x && r.end() == m.start() + y);
        }
        if form == 1 {
            assert!(r.start() == m.start() + x && r.end() == m.start() + y + 1);
        }
        if form == 2 {
            assert!(r.start() == m.start() + x && r.end() == m.end());
        }
        if form == 3 {
            assert!(r.start() == m.start() && r.end() == m.start() + y);
        }
        if form == 5 {
            assert!(r.start() == m.start() && r.end() == m.end());
        }
    }
    same(rm, rt);
}

fn span_accessors<const L: usize>() {
    let buf = nd::utf8_buf::<L>();
    let s = nd::as_str(&buf);
    let (m, t) = both(s);
    assert!(m.start() == t.start() && m.end() == t.end());
    let (p1, p2) = m.split();
    let (q1, q2) = t.split();
    assert!(p1.pos() == q1.pos() && p2.pos() == q2.pos());
    assert!(p1.pos() == m.start() && p2.pos() == m.end());
    assert!(m.start_pos().pos() == t.start_pos().pos() && m.end_pos().pos() == t.end_pos().pos());
    let ms = m.as_str();
    let ts = t.as_str();
    assert!(ms.as_ptr() == ts.as_ptr() && ms.len() == ts.len());
    assert!(ms.as_ptr() as usize == s.as_ptr() as usize + m.start() && ms.len() == m.end() - m.start());
    assert!(m.get_input().as_ptr() == s.as_ptr() && m.get_input().len() == s.len());
    let f = Span::new_full(s);
    assert!(f.start() == 0 && f.end() == L);
    cover!(m.start() > 0 && m.end() < L, "inner span");
}

fn span_merge<const L: usize>() {
    let buf = nd::utf8_buf::<L>();
    let s = nd::as_str(&buf);
    let (m1, t1) = both(s);
    let (m2, t2) = both(s);
    let rm = pest_typed::merge_spans(&m1, &m2);
    let rt = pest::merge_spans(&t1, &t2);
    let overlap_or_adjacent = m1.end() >= m2.start() && m2.end() >= m1.start();
    cover!(rm.is_some() && m1.end() == m2.start() && m1.start() < m1.end() && m2.start() < m2.end(), "adjacent");
    cover!(rm.is_none(), "disjoint");
    match rm {
        Some(r) => {
            assert!(overlap_or_adjacent);
            let lo = if m1.start() < m2.start() { m1.start() } else { m2.start() };
            let hi = if m1.end() > m2.end() { m1.end() } else { m2.end() };
            assert!(r.start() == lo && r.end() == hi);
        }
        None => assert!(!overlap_or_adjacent),
    }
    same(rm, rt);
}

fn span_eq<const L: usize>() {
    let buf = nd::utf8_buf::<L>();
    let s = nd::as_str(&buf);
    let (m1, _) = both(s);
    let (m2, _) = both(s);
    let fieldwise = m1.start() == m2.start() && m1.end() == m2.end();
    assert!((m1 == m2) == fieldwise);
    cover!(m1 == m2, "equal");
    cover!(m1 != m2 && m1.as_str().len() == m2.as_str().len(), "same length, different place");
    // a span of an equal but distinct string object is a different span
    let copy = buf;
    let s2 = nd::as_str(&copy);
    let o = Span::new(s2, m1.start(), m1.end());
    if let Some(o) = o {
        assert!(o != m1);
    }
}

fn lines<const L: usize>(alphabet: &[u8]) {
    let buf = nd::ascii_buf::<L>(alphabet);
    let s = nd::as_str(&buf);
    let (m, t) = both(s);
    let mut im = m.lines_span();
    let mut it = t.lines_span();
    let mut k = 0;
    let mut n = 0;
    // a span over L bytes touches at most L lines (+1 probe for the terminating None)
    while k < L + 1 {
        let a = im.next();
        let b = it.next();
        if a.is_some() {
            n += 1;
        }
        same(a, b);
        k += 1;
    }
    cover!(L < 2 || n == 2, "two lines");
    cover!(n == 0, "no line (empty span at end of input)");
}
/// lines_span() on a fixed text, every span of it (cheap enough for the quick tier).
fn lines_fixed(text: &'static str, max_lines: usize) {
    let s = text;
    let (m, t) = both(s);
    let mut im = m.lines_span();
    let mut it = t.lines_span();
    let mut k = 0;
    let mut n = 0;
    while k < max_lines + 1 {
        let a = im.next();
        let b = it.next();
        if a.is_some() {
            n += 1;
        }
        same(a, b);
        k += 1;
    }
    cover!(n >= 2, "two or more lines");
    cover!(n == 1 && m.end() < s.len(), "one line, span ends before the end of input");
}
fn lines_str<const L: usize>() {
    let buf = nd::ascii_buf::<L>(b"\n\ra");
    let s = nd::as_str(&buf);
    let (m, t) = both(s);
    let a = m.lines().next();
    let b = t.lines().next();
    match (a, b) {
        (None, None) => {}
        (Some(a), Some(b)) => assert!(a.as_ptr() == b.as_ptr() && a.len() == b.len()),
        _ => panic!("lines() verdict differs"),
    }
    cover!(a.is_some(), "a line");
}

harnesses! {
    #[kani::unwind(5)]
    fn c13_span_new_3() [] : "Q|Span::new vs pest::Span::new + boundary spec; every valid UTF-8 string of 3 bytes, unconstrained usize a,b" { span_new::<3>() }
    #[kani::unwind(6)]
    fn c13_span_new_4() [] : "Q|Span::new vs pest + boundary spec; every valid UTF-8 string of 4 bytes, unconstrained usize a,b" { span_new::<4>() }
    #[kani::unwind(7)]
    fn c13_span_new_5() [] : "T|Span::new vs pest + boundary spec; every valid UTF-8 string of 5 bytes" { span_new::<5>() }
    #[kani::unwind(6)]
    fn c13_w_span_new_4() [] : "W|reachability witness of c13_span_new_4: the final assert(false) must be violated" { span_new::<4>(); assert!(false); }
    #[kani::unwind(6)]
    fn c13_get_range_4() [] : "Q|Span::get(x..y) vs pest + offset spec; UTF-8 4 bytes, every valid span, unconstrained x,y" { span_get::<4>(0) }
    #[kani::unwind(6)]
    fn c13_get_range_incl_4() [] : "Q|Span::get(x..=y); y < usize::MAX" { span_get::<4>(1) }
    #[kani::unwind(6)]
    fn c13_get_from_4() [] : "Q|Span::get(x..)" { span_get::<4>(2) }
    #[kani::unwind(6)]
    fn c13_get_to_4() [] : "Q|Span::get(..y)" { span_get::<4>(3) }
    #[kani::unwind(6)]
    fn c13_get_to_incl_4() [] : "Q|Span::get(..=y); y < usize::MAX" { span_get::<4>(4) }
    #[kani::unwind(6)]
    fn c13_get_full_4() [] : "Q|Span::get(..)" { span_get::<4>(5) }
    #[kani::unwind(6)]
    fn c13_accessors_4() [] : "Q|start/end/split/start_pos/end_pos/as_str/get_input/new_full vs pest and vs the slice; UTF-8 4 bytes, every valid span" { span_accessors::<4>() }
    #[kani::unwind(6)]
    fn c13_merge_4() [] : "Q|merge_spans vs pest::merge_spans and vs the hull spec; UTF-8 4 bytes, every pair of valid spans" { span_merge::<4>() }
    #[kani::unwind(6)]
    fn c13_eq_4() [] : "Q|Span == is field-wise on one input object and false across input objects; UTF-8 4 bytes" { span_eq::<4>() }
    #[kani::unwind(4)]
    fn c13_lines_span_1() [] : "Q|lines_span() vs pest; every string of 1 byte over {LF,CR,'a'}, every span" { lines::<1>(b"\n\ra") }
    #[kani::unwind(5)]
    fn c13_lines_span_2() [] : "T|lines_span() vs pest; every string of 2 bytes over {LF,CR,'a'}, every span" { lines::<2>(b"\n\ra") }
    #[kani::unwind(5)]
    fn c13_lines_span_2_lf() [] : "X|lines_span() vs pest; every string of 2 bytes over {LF,'a'}, every span" { lines::<2>(b"\na") }
    #[kani::unwind(6)]
    fn c13_lines_fixed_a() [] : "X|lines_span() vs pest on the fixed text LF LF 'b', every span (incl. spans ending exactly on a line start that is not the end of input)" { lines_fixed("\n\nb", 3) }
    #[kani::unwind(6)]
    fn c13_lines_fixed_b() [] : "T|lines_span() vs pest on the fixed text 'a' CR LF 'b', every span" { lines_fixed("a\r\nb", 2) }
    #[kani::unwind(5)]
    fn c13_lines_str_2() [] : "Q|lines() first item vs pest; 2 bytes over {LF,CR,'a'}" { lines_str::<2>() }
    #[kani::unwind(6)]
    fn c13_lines_span_3() [] : "T|lines_span() vs pest; 3 bytes over {LF,CR,'a'}" { lines::<3>(b"\na") }
}
