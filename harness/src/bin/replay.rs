//! Native replayer: runs one harness body against the real crate with the concrete
//! values Kani's concrete playback produced (same call order as kani::any()).
//! usage: replay --list | replay <harness> <vals>   (vals = "1,2;0,0,0,0,0,0,0,0;…", "-" = none)
//! exit: 0 = body ran to the end (not reproduced), 1 = panicked (reproduced),
//!       3 = an assumption did not hold / values exhausted (not a counterexample)
#[cfg(kani)]
fn main() {}

#[cfg(not(kani))]
fn main() {
    use std::panic;
    let args: Vec<String> = std::env::args().collect();
    let reg = pv_harness::registry();
    if args.len() >= 2 && args[1] == "--list" {
        for (n, d, _) in &reg {
            println!("{}\t{}", n, d);
        }
        return;
    }
    if args.len() < 3 {
        eprintln!("usage: replay --list | replay <harness> <vals>");
        std::process::exit(4);
    }
    let name = args[1].rsplit("::").next().unwrap().to_string();
    let f = match reg.iter().find(|(n, _, _)| *n == name) {
        Some((_, _, f)) => *f,
        None => {
            eprintln!("unknown harness {}", name);
            std::process::exit(4);
        }
    };
    let vals: Vec<Vec<u8>> = if args[2] == "-" || args[2].is_empty() {
        vec![]
    } else {
        args[2]
            .split(';')
            .map(|v| {
                v.split(',')
                    .filter(|x| !x.is_empty())
                    .map(|x| x.trim().parse::<u8>().expect("byte"))
                    .collect()
            })
            .collect()
    };
    pv_harness::nd::load(vals);
    let r = panic::catch_unwind(f);
    match r {
        Ok(()) => {
            println!("NOT-REPRODUCED: harness body completed without panic");
            std::process::exit(0);
        }
        Err(e) => {
            if e.downcast_ref::<pv_harness::nd::AssumeFailed>().is_some() {
                println!("ASSUME-FAILED: values violate a harness assumption");
                std::process::exit(3);
            }
            if e.downcast_ref::<pv_harness::nd::Exhausted>().is_some() {
                println!("EXHAUSTED: harness asked for more values than supplied");
                std::process::exit(3);
            }
            let msg = if let Some(s) = e.downcast_ref::<&str>() {
                s.to_string()
            } else if let Some(s) = e.downcast_ref::<String>() {
                s.clone()
            } else {
                "<non-string panic>".to_string()
            };
            println!("REPRODUCED: {}", msg);
            std::process::exit(1);
        }
    }
}
