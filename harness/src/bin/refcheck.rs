//! Native validation of the generated reference evaluators against the parser pest_derive generates:
//! every corpus rule x every string over the grammar's alphabet up to its thorough-tier length.
//! Output: one JSON line per grammar; exit 1 if a grammar without stack operations disagrees with pest.
#[cfg(kani)]
fn main() {}

#[cfg(not(kani))]
fn main() {
    std::panic::set_hook(Box::new(|_| {})); // pest panics (PEEK on empty stack) are expected and counted
    let mut bad = false;
    for (name, f) in pv_harness::gen::validators() {
        let v = f();
        let uses_stack = {
            let g = pv_harness::gen::grammar_text(name);
            g.contains("PUSH") || g.contains("PEEK") || g.contains("POP") || g.contains("DROP")
        };
        println!(
            "{{\"grammar\":{:?},\"strings\":{},\"agree\":{},\"pest_panics\":{},\"mismatches\":{},\"uses_stack\":{},\"samples\":{:?}}}",
            name,
            v.strings,
            v.agree,
            v.pest_panics.len(),
            v.mismatches.len(),
            uses_stack,
            v.mismatches.iter().take(5).collect::<Vec<_>>()
        );
        if !v.mismatches.is_empty() && !uses_stack {
            bad = true;
        }
    }
    if bad {
        std::process::exit(1);
    }
}
