//! scratch measurements (not registered in any property)
use crate::gen::ops_seq::*;
use crate::nd;
use crate::refpeg::*;
use crate::stubs;
use pest_typed::tracker::Tracker;
use pest_typed::{AsInput, Input, Stack, TypedNode};

fn typed_only() {
    let buf = nd::ascii_buf::<3>(ALPHABET);
    let s = unsafe { core::str::from_utf8_unchecked(&buf) };
    let inp = s.as_input();
    stubs::stack_reset();
    let mut stack = Stack::new();
    let mut tracker = Tracker::<typed::Rule>::new(inp);
    let got = <typed::rules::r<'_, 1> as TypedNode<typed::Rule>>::try_check_partial_with(inp, &mut stack, &mut tracker).map(|i| i.byte_offset());
    assert!(got.is_some());
    core::mem::forget(stack);
    core::mem::forget(tracker);
}
fn ref_only() {
    let buf = nd::ascii_buf::<3>(ALPHABET);
    let s = unsafe { core::str::from_utf8_unchecked(&buf) };
    let r = <reference::r_r<1> as RefNode>::eval(Ctx { b: s.as_bytes(), start: 0, end: 3 }, RefState::new(0));
    assert!(r.is_some());
}
harnesses! {
    #[kani::unwind(5)] fn c99_typed_only() [T0 S F] : "X|scratch" { typed_only() }
    #[kani::unwind(5)] fn c99_ref_only() [] : "X|scratch" { ref_only() }
}
