//! Nondeterminism layer: the same harness body is a Kani proof (cfg(kani)) and a
//! native replay of a concrete counterexample (values fed in Kani's playback order).

#[cfg(kani)]
mod imp {
    #[inline(always)]
    pub fn u8() -> u8 {
        kani::any()
    }
    #[inline(always)]
    pub fn usize() -> usize {
        kani::any()
    }
    #[inline(always)]
    pub fn i32() -> i32 {
        kani::any()
    }
    #[inline(always)]
    pub fn bool() -> bool {
        kani::any()
    }
    #[inline(always)]
    pub fn assume(b: bool) {
        kani::assume(b)
    }
}

#[cfg(not(kani))]
mod imp {
    use std::cell::RefCell;
    use std::collections::VecDeque;
    thread_local! {
        pub static QUEUE: RefCell<VecDeque<Vec<u8>>> = RefCell::new(VecDeque::new());
    }
    /// Marker payload used to unwind out of a replay whose assumption does not hold.
    pub struct AssumeFailed;
    pub struct Exhausted;
    fn next(n: usize) -> Vec<u8> {
        QUEUE.with(|q| match q.borrow_mut().pop_front() {
            Some(v) => {
                let mut v = v;
                v.resize(n, 0);
                v
            }
            None => std::panic::panic_any(Exhausted),
        })
    }
    pub fn u8() -> u8 {
        next(1)[0]
    }
    pub fn usize() -> usize {
        let v = next(8);
        usize::from_le_bytes(v.try_into().unwrap())
    }
    pub fn i32() -> i32 {
        let v = next(4);
        i32::from_le_bytes(v.try_into().unwrap())
    }
    pub fn bool() -> bool {
        next(1)[0] != 0
    }
    pub fn assume(b: bool) {
        if !b {
            std::panic::panic_any(AssumeFailed)
        }
    }
    pub fn load(vals: Vec<Vec<u8>>) {
        QUEUE.with(|q| *q.borrow_mut() = vals.into());
    }
}

pub use imp::*;

/// `L` arbitrary bytes forming valid UTF-8 (every valid string of exactly L bytes).
#[inline(always)]
pub fn utf8_buf<const L: usize>() -> [u8; L] {
    let mut b = [0u8; L];
    let mut i = 0;
    while i < L {
        b[i] = u8();
        i += 1;
    }
    assume(core::str::from_utf8(&b).is_ok());
    b
}

/// `L` bytes each drawn from `alphabet` (ASCII bytes).
#[inline(always)]
pub fn ascii_buf<const L: usize>(alphabet: &[u8]) -> [u8; L] {
    let mut b = [0u8; L];
    let mut i = 0;
    while i < L {
        let c = u8();
        let mut ok = false;
        let mut k = 0;
        while k < alphabet.len() {
            if c == alphabet[k] {
                ok = true;
            }
            k += 1;
        }
        assume(ok);
        b[i] = c;
        i += 1;
    }
    b
}

#[inline(always)]
pub fn as_str(b: &[u8]) -> &str {
    // All callers pass buffers assumed/constructed to be valid UTF-8; checked anyway.
    match core::str::from_utf8(b) {
        Ok(s) => s,
        Err(_) => {
            assume(false);
            ""
        }
    }
}
