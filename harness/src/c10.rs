//! C10 — error reports are in bounds, not before consumed input, and truthful.
//! Tracker unit: everything of tracker.rs real except the BTreeMap (stub set T1: one static slot).
use crate::common::*;
use crate::nd;
use crate::stubs;
use pest_typed::tracker::Tracker;
use pest_typed::{AsInput, Input, Position};

const TEXT: &str = "xxxx";
const NPOS: usize = 4;

#[derive(Clone, Copy)]
struct Att {
    pos: usize,
    rule: R,
    succ: bool,
    /// polarity in force when the attempt completed (true = positive)
    positive: bool,
    leaf: bool,
    made: bool,
}
fn rule_of(v: u8) -> R {
    match v {
        0 => R::X,
        1 => R::Y,
        _ => R::Z,
    }
}
fn sym_att() -> (usize, R, bool) {
    let p = nd::usize();
    nd::assume(p <= NPOS);
    let r = nd::u8();
    nd::assume(r < 3);
    (p, rule_of(r), nd::bool())
}
fn contains(v: &[R], r: R) -> bool {
    let mut i = 0;
    let mut f = false;
    while i < v.len() {
        if v[i] == r {
            f = true;
        }
        i += 1;
    }
    f
}

/// Symbolic schedule: root{ [neg?] A ; [neg?] B{ [pos?/neg?] C? } ; D } — up to four attempts, nested and
/// sequential, arbitrary positions, outcomes, rules and polarity nesting.
fn tracker_schedule() {
    let p_init = nd::usize();
    nd::assume(p_init <= NPOS);
    let start = Position::new(TEXT, p_init).unwrap();
    let mut tr = Tracker::<R>::new(start);
    stubs::t1_reset();
    let at = |p: usize| Position::new(TEXT, p).unwrap();
    let (pr, rr, sr) = sym_att();
    let (pa, ra, sa) = sym_att();
    let (pb, rb, sb) = sym_att();
    let (pc, rc, sc) = sym_att();
    let (pd, rd, sd) = sym_att();
    let neg_a = nd::bool();
    let neg_b = nd::bool();
    let flip_c = nd::u8(); // 0 inherit, 1 positive_during, 2 negative_during
    nd::assume(flip_c < 3);
    let with_c = nd::bool();
    let with_d = nd::bool();
    let some = |b: bool| if b { Some(()) } else { None };
    let _ = tr.record_during_with(at(pr), |tr| {
        // A
        if neg_a {
            let _ = tr.negative_during(|tr| tr.record_during_with(at(pa), |_| some(sa), ra));
        } else {
            let _ = tr.record_during_with(at(pa), |_| some(sa), ra);
        }
        // B { C? }
        let run_b = |tr: &mut Tracker<'_, R>| {
            tr.record_during_with(at(pb), |tr| {
                if with_c {
                    match flip_c {
                        0 => { let _ = tr.record_during_with(at(pc), |_| some(sc), rc); }
                        1 => { let _ = tr.positive_during(|tr| tr.record_during_with(at(pc), |_| some(sc), rc)); }
                        _ => { let _ = tr.negative_during(|tr| tr.record_during_with(at(pc), |_| some(sc), rc)); }
                    }
                }
                some(sb)
            }, rb)
        };
        if neg_b {
            let _ = tr.negative_during(run_b);
        } else {
            let _ = run_b(tr);
        }
        // D
        if with_d {
            let _ = tr.record_during_with(at(pd), |_| some(sd), rd);
        }
        some(sr)
    }, rr);
    // what was attempted, in the property's terms
    let pol_b = !neg_b;
    let pol_c = match flip_c { 0 => pol_b, 1 => true, _ => false };
    let atts = [
        Att { pos: pr, rule: rr, succ: sr, positive: true, leaf: false, made: true },
        Att { pos: pa, rule: ra, succ: sa, positive: !neg_a, leaf: true, made: true },
        Att { pos: pb, rule: rb, succ: sb, positive: pol_b, leaf: !with_c, made: true },
        Att { pos: pc, rule: rc, succ: sc, positive: pol_c, leaf: true, made: with_c },
        Att { pos: pd, rule: rd, succ: sd, positive: true, leaf: true, made: with_d },
    ];
    let (fin, map) = tr.finish();
    let (pos_v, neg_v, _) = stubs::attempts_of(&map);
    core::mem::forget(map);
    let fp = fin.pos();
    // (i) the location is the initial position or the position of a leaf attempt, and no leaf attempt lies beyond it
    let mut maxp = p_init;
    let mut i = 0;
    while i < 5 {
        if atts[i].made && atts[i].leaf && atts[i].pos > maxp {
            maxp = atts[i].pos;
        }
        i += 1;
    }
    assert!(fp == maxp, "reported location is not the furthest leaf attempt");
    assert!(fp <= NPOS && fp >= p_init);
    // (ii)+(iii)+(iv) truthfulness, both directions
    let (pos_list, neg_list): (&[R], &[R]) = (&pos_v, &neg_v);
    let mut r = 0u8;
    while r < 3 {
        let rule = rule_of(r);
        let mut exp_pos = false;
        let mut exp_neg = false;
        let mut i = 0;
        while i < 5 {
            let a = atts[i];
            if a.made && a.leaf && a.pos == maxp && a.rule == rule {
                if a.positive && !a.succ {
                    exp_pos = true;
                }
                if !a.positive && a.succ {
                    exp_neg = true;
                }
            }
            i += 1;
        }
        assert!(contains(pos_list, rule) == exp_pos, "expected-list is not exactly the rules that failed at the location under positive polarity");
        assert!(contains(neg_list, rule) == exp_neg, "unexpected-list is not exactly the rules that matched at the location under negative polarity");
        r += 1;
    }
    cover!(pos_list.len() >= 2, "two expected rules");
    cover!(neg_list.len() >= 1 && pos_list.len() >= 1, "expected and unexpected");
    cover!(fp > p_init, "location advanced");
}

/// Polarity is restored after positive_during / negative_during, whatever the nesting.
fn polarity_restored() {
    let start = Position::new(TEXT, 0).unwrap();
    let mut tr = Tracker::<R>::new(start);
    stubs::t1_reset();
    let at = |p: usize| Position::new(TEXT, p).unwrap();
    let n1 = nd::bool();
    let n2 = nd::bool();
    let inner = |tr: &mut Tracker<'_, R>| {
        if n2 { tr.negative_during(|_| ()) } else { tr.positive_during(|_| ()) }
    };
    if n1 { tr.negative_during(inner) } else { tr.positive_during(inner) };
    // a failing leaf attempt now must be recorded as *expected* (polarity is positive again)
    let _ = tr.record_during_with(at(1), |_| None::<()>, R::Y);
    let (_fin, map) = tr.finish();
    let (pos_v, neg_v, _) = stubs::attempts_of(&map);
    core::mem::forget(map);
    let (pos_list, neg_list): (&[R], &[R]) = (&pos_v, &neg_v);
    assert!(pos_list.len() == 1 && pos_list[0] == R::Y && neg_list.len() == 0, "polarity not restored after *_during");
    cover!(n1 && !n2, "negative around positive");
}

/// Special errors (empty stack / out of bound) follow the same location rule.
fn special_errors() {
    let p_init = nd::usize();
    nd::assume(p_init <= NPOS);
    let mut tr = Tracker::<R>::new(Position::new(TEXT, p_init).unwrap());
    stubs::t1_reset();
    let p1 = nd::usize();
    let p2 = nd::usize();
    nd::assume(p1 <= NPOS && p2 <= NPOS);
    tr.empty_stack(Position::new(TEXT, p1).unwrap());
    tr.out_of_bound(Position::new(TEXT, p2).unwrap(), -1, Some(3));
    let (fin, map) = tr.finish();
    let (_, _, n) = stubs::attempts_of(&map);
    core::mem::forget(map);
    let m = if p1 > p_init { p1 } else { p_init };
    let m = if p2 > m { p2 } else { m };
    assert!(fin.pos() == m);
    let exp = (if p1 == m && p2 <= p1 { 1 } else { 0 }) + (if p2 == m { 1 } else { 0 });
    assert!(n == exp, "special errors kept do not belong to the reported location");
    cover!(n == 2, "both kept");
}

harnesses! {
    #[kani::unwind(7)] fn c10_tracker_schedule() [T1] : "Q|Tracker: symbolic schedule of up to 5 nested/sequential attempts (root, A, B{C?}, D?) with symbolic positions (0..4), rules, outcomes and polarity nesting: location = furthest leaf attempt; expected/unexpected lists exactly truthful; attempts with children never listed" { tracker_schedule() }
    #[kani::unwind(7)] fn c10_polarity_restored() [T1] : "Q|polarity restored after nested positive_during/negative_during" { polarity_restored() }
    #[kani::unwind(7)] fn c10_special_errors() [T1] : "Q|empty_stack / out_of_bound reports obey the furthest-location rule" { special_errors() }
}
