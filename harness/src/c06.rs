//! C06 — stack operations behave as pest specifies and fail gracefully.
//! Real `pest::Stack` (no enclosing snapshots); stub set T0 only.
use crate::common::*;
use crate::nd;
use pest_typed::predefined_node::*;
use pest_typed::tracker::Tracker;
use pest_typed::{AsInput, Input, Position, Span, Stack, TypedNode};

/// Index normalisation for all i32 at once (through the `__verif` hook), against list slicing
/// written in 64-bit arithmetic.
fn constrain() {
    let start = nd::i32();
    let end = nd::i32();
    let has_end = nd::bool();
    let len = nd::usize();
    nd::assume(len <= 65536);
    let got = pest_typed::__verif::constrain_idxs(start, if has_end { Some(end) } else { None }, len);
    let l = len as i64;
    let norm = |i: i32| -> Option<usize> {
        let i = i as i64;
        if i > l || i < -l {
            None
        } else if i >= 0 {
            Some(i as usize)
        } else {
            Some((l + i) as usize)
        }
    };
    let exp = match (norm(start), if has_end { norm(end) } else { Some(len) }) {
        (Some(a), Some(b)) => Some((a, b)),
        _ => None,
    };
    cover!(got.is_some() && start < 0 && has_end && end < 0, "negative indices accepted");
    cover!(got.is_none() && start >= 0, "rejected");
    match (got, exp) {
        (None, None) => {}
        (Some(r), Some((a, b))) => assert!(r.start == a && r.end == b),
        _ => panic!("constrain_idxs disagrees with list slicing"),
    }
}

pub const N: usize = 5;
/// The i-th pushed entry (bottom = 0) covers these bytes of the text.
pub const ENTRY: [(usize, usize); 4] = [(0, 1), (1, 3), (3, 4), (4, 5)];

/// Layout in force: `ENTRY`, or (after `sym_layout()`) arbitrary spans of 0..=2 bytes anywhere in
/// the text, drawn by `setup` — empty entries, overlapping entries and entries ending at the end of
/// the text included.
static mut LAY: [(usize, usize); 4] = ENTRY;
static mut SYM: bool = false;
pub fn sym_layout() {
    unsafe { SYM = true }
}
fn lay(i: usize) -> (usize, usize) {
    unsafe { LAY[i] }
}
fn draw_layout<const D: usize>() {
    if unsafe { SYM } {
        let mut i = 0;
        while i < D {
            let a = nd::usize();
            let l = nd::usize();
            nd::assume(l <= 2 && a <= N && a + l <= N);
            unsafe { LAY[i] = (a, a + l) }
            i += 1;
        }
    } else {
        unsafe { LAY = ENTRY }
    }
}

fn entry_text(b: &[u8], i: usize) -> &[u8] {
    &b[lay(i).0..lay(i).1]
}

/// Reference: match entries `idx[0], idx[1], …` (in that order) at `p`.
fn ref_concat(b: &[u8], mut p: usize, idx: &[usize]) -> Option<usize> {
    let mut k = 0;
    while k < idx.len() {
        match ref_lit(b, p, N, entry_text(b, idx[k])) {
            Some(q) => p = q,
            None => return None,
        }
        k += 1;
    }
    Some(p)
}

struct Setup<'i> {
    s: &'i str,
    stack: Stack<Span<'i>>,
    tracker: Tracker<'i, R>,
    p: usize,
}
fn setup<'i, const D: usize>(buf: &'i [u8; N]) -> Setup<'i> {
    let s = nd::as_str(buf);
    draw_layout::<D>();
    let mut stack = Stack::new();
    let mut i = 0;
    while i < D {
        stack.push(Span::new(s, lay(i).0, lay(i).1).unwrap());
        i += 1;
    }
    let p = nd::usize();
    nd::assume(p <= N);
    let tracker = Tracker::new(s.as_input());
    Setup { s, stack, tracker, p }
}
fn depth(stack: &Stack<Span<'_>>) -> usize {
    stack.len()
}
fn entries_unchanged<const D: usize>(s: &str, stack: &Stack<Span<'_>>, upto: usize) -> bool {
    let mut ok = true;
    let mut i = 0;
    while i < D {
        if i < upto {
            let e = &stack[i..i + 1][0];
            if e.start() != lay(i).0 || e.end() != lay(i).1 {
                ok = false;
            }
        }
        i += 1;
    }
    let _ = s;
    ok
}

/// which: 0 PEEK, 1 POP, 2 DROP, 3 PEEK_ALL, 4 POP_ALL; parse path and check path both run
/// (on two identically built stacks).
fn builtin<const D: usize>(which: u8) {
    let buf = nd::ascii_buf::<N>(b"ab");
    let mut u = setup::<D>(&buf);
    let mut v_stack: Stack<Span<'_>> = Stack::new();
    let mut i = 0;
    while i < D {
        v_stack.push(Span::new(u.s, lay(i).0, lay(i).1).unwrap());
        i += 1;
    }
    let inp = Position::new(u.s, u.p).unwrap();
    let b = u.s.as_bytes();
    let (got_c, got_p, span): (Option<usize>, Option<usize>, Option<Span<'_>>) = match which {
        0 => {
            let c = check::<PEEK<'_>, _>(inp, &mut u.stack, &mut u.tracker);
            let p = parse::<PEEK<'_>, _>(inp, &mut v_stack, &mut u.tracker);
            (c, p.as_ref().map(|x| x.0), p.map(|x| x.1.span))
        }
        1 => {
            let c = check::<POP<'_>, _>(inp, &mut u.stack, &mut u.tracker);
            let p = parse::<POP<'_>, _>(inp, &mut v_stack, &mut u.tracker);
            (c, p.as_ref().map(|x| x.0), p.map(|x| x.1.span))
        }
        2 => {
            let c = check::<DROP, _>(inp, &mut u.stack, &mut u.tracker);
            let p = parse::<DROP, _>(inp, &mut v_stack, &mut u.tracker);
            (c, p.as_ref().map(|x| x.0), None)
        }
        3 => {
            let c = check::<PEEK_ALL<'_>, _>(inp, &mut u.stack, &mut u.tracker);
            let p = parse::<PEEK_ALL<'_>, _>(inp, &mut v_stack, &mut u.tracker);
            (c, p.as_ref().map(|x| x.0), p.map(|x| x.1.span))
        }
        _ => {
            let c = check::<POP_ALL<'_>, _>(inp, &mut u.stack, &mut u.tracker);
            let p = parse::<POP_ALL<'_>, _>(inp, &mut v_stack, &mut u.tracker);
            (c, p.as_ref().map(|x| x.0), p.map(|x| x.1.span))
        }
    };
    // reference
    let top = [D.wrapping_sub(1)];
    let all_top_down: [usize; D] = core::array::from_fn(|k| D - 1 - k);
    let exp: Option<usize> = match which {
        0 | 1 => if D == 0 { None } else { ref_concat(b, u.p, &top) },
        2 => if D == 0 { None } else { Some(u.p) },
        _ => ref_concat(b, u.p, &all_top_down),
    };
    cover!(D == 0 || which == 2 || (exp.is_some() && exp.unwrap() > u.p), "matched and consumed");
    cover!(!unsafe { SYM } || D == 0 || (exp == Some(N) && u.p == N), "symbolic layout: matched at the very end of the text (empty entries only)");
    cover!(exp.is_none() || which >= 2, "failed (n/a for DROP/PEEK_ALL/POP_ALL when they cannot fail)");
    assert!(got_c == exp);
    assert!(got_p == exp);
    // resulting depth
    let exp_depth_ok = match which {
        0 | 3 => D,
        1 => if exp.is_some() { D - 1 } else { depth(&u.stack) },
        2 => if D == 0 { 0 } else { D - 1 },
        _ => if exp.is_some() { 0 } else { D },
    };
    if which != 1 || exp.is_some() {
        assert!(depth(&u.stack) == exp_depth_ok);
        assert!(depth(&v_stack) == exp_depth_ok);
    }
    assert!(entries_unchanged::<D>(u.s, &u.stack, depth(&u.stack)));
    // the span exposed by PEEK / PEEK_ALL / POP_ALL is the text consumed; POP exposes the popped entry
    if let (Some(sp), Some(e)) = (span, exp) {
        if which == 1 {
            assert!(sp.start() == lay(D - 1).0 && sp.end() == lay(D - 1).1);
        } else {
            assert!(sp.start() == u.p && sp.end() == e);
        }
    }
    core::mem::forget(u.stack);
    core::mem::forget(v_stack);
    core::mem::forget(u.tracker);
}

/// `PEEK[A..B]` on a stack of depth D at a symbolic position.
pub fn slice2<const LO: i32, const HI: i32, const D: usize>() {
    let buf = nd::ascii_buf::<N>(b"ab");
    let mut u = setup::<D>(&buf);
    let inp = Position::new(u.s, u.p).unwrap();
    let b = u.s.as_bytes();
    let got_c = check::<PeekSlice2<LO, HI>, _>(inp, &mut u.stack, &mut u.tracker);
    let got_p = parse::<PeekSlice2<LO, HI>, _>(inp, &mut u.stack, &mut u.tracker).map(|x| x.0);
    let exp = ref_slice(b, u.p, LO, Some(HI), D);
    cover!(exp.is_none() || exp.is_some(), "decided");
    assert!(got_c == exp);
    assert!(got_p == exp);
    assert!(depth(&u.stack) == D && entries_unchanged::<D>(u.s, &u.stack, D));
    core::mem::forget(u.stack);
    core::mem::forget(u.tracker);
}
pub fn slice1<const LO: i32, const D: usize>() {
    let buf = nd::ascii_buf::<N>(b"ab");
    let mut u = setup::<D>(&buf);
    let inp = Position::new(u.s, u.p).unwrap();
    let b = u.s.as_bytes();
    let got_c = check::<PeekSlice1<LO>, _>(inp, &mut u.stack, &mut u.tracker);
    let got_p = parse::<PeekSlice1<LO>, _>(inp, &mut u.stack, &mut u.tracker).map(|x| x.0);
    let exp = ref_slice(b, u.p, LO, None, D);
    assert!(got_c == exp);
    assert!(got_p == exp);
    assert!(depth(&u.stack) == D && entries_unchanged::<D>(u.s, &u.stack, D));
    core::mem::forget(u.stack);
    core::mem::forget(u.tracker);
}
/// List-slicing reference: entries lo..hi bottom to top; negative = from the top; out of range = fail;
/// empty range = succeed without consuming.
fn ref_slice(b: &[u8], p: usize, a: i32, bnd: Option<i32>, d: usize) -> Option<usize> {
    let d = d as i64;
    let norm = |i: i64| -> Option<i64> {
        if i > d || i < -d { None } else if i >= 0 { Some(i) } else { Some(d + i) }
    };
    let lo = norm(a as i64)?;
    let hi = match bnd { Some(x) => norm(x as i64)?, None => d };
    let mut q = p;
    let mut i = lo;
    while i < hi {
        q = ref_lit(b, q, N, entry_text(b, i as usize))?;
        i += 1;
    }
    Some(q)
}

#[macro_export]
macro_rules! s2_row {
    ($a:expr, $d:expr; $($b:expr),*) => {{
        let sel = nd::i32();
        $( if sel == $b { slice2::<{ $a }, { $b }, { $d }>(); cover!(true, "slice instantiation reached"); } else )*
        { nd::assume(false); }
    }};
}
#[macro_export]
macro_rules! s1_row {
    ($d:expr; $($a:expr),*) => {{
        let sel = nd::i32();
        $( if sel == $a { slice1::<{ $a }, { $d }>(); cover!(true, "slice instantiation reached"); } else )*
        { nd::assume(false); }
    }};
}
macro_rules! s2_quick { ($a:expr) => { s2_row!($a, 2; -3, -2, -1, 0, 1, 2, 3) }; }
#[macro_export]
macro_rules! s2_full { ($a:expr, $d:expr) => { $crate::s2_row!($a, $d; -6, -5, -4, -3, -2, -1, 0, 1, 2, 3, 4, 5, 6) }; }

/// Push<T> pushes exactly start..end of T's match (skips inside T included).
fn push_span(which: u8) {
    let buf = nd::ascii_buf::<4>(b"ab x");
    let s = nd::as_str(&buf);
    let b = s.as_bytes();
    let p = nd::usize();
    nd::assume(p <= 4);
    let inp = Position::new(s, p).unwrap();
    let mut stack: Stack<Span<'_>> = Stack::new();
    let mut tracker = Tracker::<R>::new(s.as_input());
    type SeqAB = pest_typed::sequence::Seq2<Skipped<Str<A>, Ws, 1>, Skipped<Str<B>, Ws, 1>>;
    let (got, exp): (Option<usize>, Option<usize>) = match which {
        0 => (check::<Push<Str<AB>>, _>(inp, &mut stack, &mut tracker), ref_lit(b, p, 4, b"ab")),
        1 => (
            parse::<Push<SeqAB>, _>(inp, &mut stack, &mut tracker).map(|x| x.0),
            ref_lit(b, p, 4, b"a").and_then(|q| ref_lit(b, ref_ws(b, q, 4), 4, b"b")),
        ),
        _ => (
            check::<Push<Option<Str<A>>>, _>(inp, &mut stack, &mut tracker),
            Some(ref_lit(b, p, 4, b"a").unwrap_or(p)),
        ),
    };
    cover!(which != 1 || (exp.is_some() && exp.unwrap() == p + 3), "skip inside the pushed expression");
    assert!(got == exp);
    match exp {
        Some(e) => {
            assert!(stack.len() == 1);
            let top = stack.peek().unwrap();
            assert!(top.start() == p && top.end() == e);
        }
        None => assert!(stack.len() == 0),
    }
    core::mem::forget(stack);
    core::mem::forget(tracker);
}

harnesses! {
    fn c06_constrain_idxs() [] : "Q|constrain_idxs(start,end,len) == list slicing for ALL start,end: i32, end optional, len <= 65536 (hook __verif); no panic/overflow" { constrain() }

    #[kani::unwind(7)] fn c06_peek_d0() [T0] : "Q|PEEK on empty stack fails (parse+check), no panic; text 5 bytes over {a,b}, all positions" { builtin::<0>(0) }
    #[kani::unwind(7)] fn c06_peek_d2() [T0] : "Q|PEEK matches the top entry, depth 2" { builtin::<2>(0) }
    #[kani::unwind(7)] fn c06_pop_d0() [T0] : "Q|POP on empty stack fails" { builtin::<0>(1) }
    #[kani::unwind(7)] fn c06_pop_d2() [T0] : "Q|POP matches and removes the top entry, depth 2" { builtin::<2>(1) }
    #[kani::unwind(7)] fn c06_drop_d0() [T0] : "Q|DROP on empty stack fails" { builtin::<0>(2) }
    #[kani::unwind(7)] fn c06_drop_d2() [T0] : "Q|DROP removes the top entry without consuming, depth 2" { builtin::<2>(2) }
    #[kani::unwind(7)] fn c06_peek_all_d0() [T0] : "Q|PEEK_ALL on empty stack succeeds without consuming" { builtin::<0>(3) }
    #[kani::unwind(7)] fn c06_peek_all_d3() [T0] : "Q|PEEK_ALL matches entries top to bottom, depth 3" { builtin::<3>(3) }
    #[kani::unwind(7)] fn c06_pop_all_d3() [T0] : "Q|POP_ALL matches entries top to bottom and empties the stack, depth 3" { builtin::<3>(4) }
    #[kani::unwind(7)] fn c06_peek_d4() [T0] : "T|PEEK depth 4" { builtin::<4>(0) }
    #[kani::unwind(7)] fn c06_pop_d4() [T0] : "T|POP depth 4" { builtin::<4>(1) }
    #[kani::unwind(7)] fn c06_pop_d1() [T0] : "T|POP depth 1" { builtin::<1>(1) }
    #[kani::unwind(7)] fn c06_drop_d4() [T0] : "T|DROP depth 4" { builtin::<4>(2) }
    #[kani::unwind(7)] fn c06_peek_all_d4() [T0] : "T|PEEK_ALL depth 4" { builtin::<4>(3) }
    #[kani::unwind(7)] fn c06_pop_all_d4() [T0] : "T|POP_ALL depth 4" { builtin::<4>(4) }
    #[kani::unwind(7)] fn c06_pop_all_d0() [T0] : "T|POP_ALL depth 0" { builtin::<0>(4) }
    #[kani::unwind(7)] fn c06_pop_all_d1() [T0] : "T|POP_ALL depth 1" { builtin::<1>(4) }

    #[kani::unwind(7)] fn c06_slice1_d2() [T0] : "Q|PEEK[a..] for a in -3..=3 (symbolic selector), depth 2" { s1_row!(2; -3, -2, -1, 0, 1, 2, 3) }
    #[kani::unwind(7)] fn c06_slice2_d2_am3() [T0] : "Q|PEEK[-3..b], b in -3..=3, depth 2 (out of range below)" { s2_quick!(-3) }
    #[kani::unwind(7)] fn c06_slice2_d2_am2() [T0] : "Q|PEEK[-2..b], b in -3..=3, depth 2" { s2_quick!(-2) }
    #[kani::unwind(7)] fn c06_slice2_d2_am1() [T0] : "Q|PEEK[-1..b], b in -3..=3, depth 2" { s2_quick!(-1) }
    #[kani::unwind(7)] fn c06_slice2_d2_a0() [T0] : "Q|PEEK[0..b], b in -3..=3, depth 2" { s2_quick!(0) }
    #[kani::unwind(7)] fn c06_slice2_d2_a1() [T0] : "Q|PEEK[1..b], b in -3..=3, depth 2" { s2_quick!(1) }
    #[kani::unwind(7)] fn c06_slice2_d2_a2() [T0] : "Q|PEEK[2..b], b in -3..=3, depth 2" { s2_quick!(2) }
    #[kani::unwind(7)] fn c06_slice2_d2_a3() [T0] : "Q|PEEK[3..b], b in -3..=3, depth 2 (out of range above)" { s2_quick!(3) }

    #[kani::unwind(7)] fn c06_e_peek_d2() [T0] : "Q|PEEK, depth 2, entries = arbitrary spans of 0..=2 bytes (empty entries, end of text)" { sym_layout(); builtin::<2>(0) }
    #[kani::unwind(7)] fn c06_e_pop_d2() [T0] : "Q|POP, depth 2, arbitrary entries of 0..=2 bytes" { sym_layout(); builtin::<2>(1) }
    #[kani::unwind(7)] fn c06_e_peek_all_d3() [T0] : "Q|PEEK_ALL, depth 3, arbitrary entries of 0..=2 bytes" { sym_layout(); builtin::<3>(3) }
    #[kani::unwind(7)] fn c06_e_pop_all_d3() [T0] : "Q|POP_ALL, depth 3, arbitrary entries of 0..=2 bytes" { sym_layout(); builtin::<3>(4) }
    #[kani::unwind(7)] fn c06_e_slice2_d2() [T0] : "Q|PEEK[0..b], b in -3..=3, depth 2, arbitrary entries of 0..=2 bytes" { sym_layout(); s2_quick!(0) }
    #[kani::unwind(7)] fn c06_e_slice1_d3() [T0] : "T|PEEK[a..], a in -3..=3, depth 3, arbitrary entries of 0..=2 bytes" { sym_layout(); s1_row!(3; -3, -2, -1, 0, 1, 2, 3) }
    #[kani::unwind(7)] fn c06_e_peek_all_d4() [T0] : "T|PEEK_ALL, depth 4, arbitrary entries of 0..=2 bytes" { sym_layout(); builtin::<4>(3) }
    #[kani::unwind(7)] fn c06_e_pop_all_d4() [T0] : "T|POP_ALL, depth 4, arbitrary entries of 0..=2 bytes" { sym_layout(); builtin::<4>(4) }
    #[kani::unwind(7)] fn c06_e_slice2_d4() [T0] : "T|PEEK[-4..b], b in -6..=6, depth 4, arbitrary entries of 0..=2 bytes" { sym_layout(); s2_full!(-4, 4) }

    #[kani::unwind(6)] fn c06_push_str() [T0] : "Q|Push<Str> pushes exactly the matched text; 4 bytes over {a,b,' ',x}, all positions" { push_span(0) }
    #[kani::unwind(6)] fn c06_push_seq_skip() [T0] : "Q|Push<Seq2 with skip> pushed span includes the implicit skip inside" { push_span(1) }
    #[kani::unwind(6)] fn c06_push_opt() [T0] : "Q|Push<Option<Str>> pushes the (possibly empty) match" { push_span(2) }
}
