//! C03 — check-only entry points agree with parsing.
//! Relational harness `pc_ref`: parse path, check path and the reference evaluator from the same
//! input and equal stacks: same verdict, same cursor, same final stack. With *abstract* children
//! (symbolic outcome tables) this is one inductive step over grammar structure: if the children
//! satisfy the contract, so does the combinator; it covers grammars of any depth built from these
//! combinators for inputs of <= 3 positions.
use crate::common::*;
use crate::nd;
use crate::refpeg::*;
use crate::rel::*;
use pest_typed::choices::*;
use pest_typed::predefined_node::*;
use pest_typed::sequence::*;
use pest_typed::TypedNode;

pub type Sk<T> = Skipped<T, AbsSkip<3>, 1>;
pub type Nk<T> = Skipped<T, AbsSkip<3>, 0>;
pub type RSk = RAbsSkip<3>;
pub const FREE: [u8; ABS_IDS] = [0; ABS_IDS];
/// repetition bodies advance >= 1 (what pest's validator guarantees); the skip (id 3) may advance 0
pub const PROG: [u8; ABS_IDS] = [1, 1, 1, 0];

pub fn abs3<'i, T: TypedNode<'i, R>, RT: RefNode>(min_adv: [u8; ABS_IDS], d0: usize)
where
    'static: 'i,
{
    abs_init(3, min_adv);
    let p0 = nd::usize();
    nd::assume(p0 <= 3);
    let (o, _) = pc_ref::<T, RT>(XXX, p0, d0);
    cover!(o.check.is_some() && o.check.unwrap() > p0, "matched and advanced");
    cover!(o.check.is_none(), "rejected");
}
/// Thorough tier: the same step over P - 1 input positions (P = 5: four positions). mode 0: can fail and advance,
/// 1: cannot fail, 2: consumes nothing.
pub fn absn<'i, const P: usize, T: TypedNode<'i, R>, RT: RefNode>(min_adv: [u8; ABS_IDS], d0: usize, mode: u8)
where
    'static: 'i,
{
    abs_init_p::<P>(min_adv);
    let n = P - 1;
    let p0 = nd::usize();
    nd::assume(p0 <= n);
    let (o, _) = pc_ref::<T, RT>(&XXXXX[..n], p0, d0);
    let adv = o.check.is_some() && o.check.unwrap() > p0;
    let stay = o.check == Some(p0);
    let rej = o.check.is_none();
    cover!(if mode == 2 { stay } else { adv }, "accepted (advancing, where the node can advance)");
    cover!(if mode == 1 { stay } else { rej }, "rejected (matched nothing, for nodes that cannot fail)");
}
/// same for nodes that cannot fail
pub fn abs3nf<'i, T: TypedNode<'i, R>, RT: RefNode>(min_adv: [u8; ABS_IDS], d0: usize)
where
    'static: 'i,
{
    abs_init(3, min_adv);
    let p0 = nd::usize();
    nd::assume(p0 <= 3);
    let (o, _) = pc_ref::<T, RT>(XXX, p0, d0);
    cover!(o.check.is_some() && o.check.unwrap() > p0, "matched and advanced");
    cover!(o.check == Some(p0), "matched nothing");
}

/// same for nodes that consume nothing (predicates, EOI)
pub fn abs3z<'i, T: TypedNode<'i, R>, RT: RefNode>(min_adv: [u8; ABS_IDS], d0: usize)
where
    'static: 'i,
{
    abs_init(3, min_adv);
    let p0 = nd::usize();
    nd::assume(p0 <= 3);
    let (o, _) = pc_ref::<T, RT>(XXX, p0, d0);
    cover!(o.check == Some(p0), "accepted");
    cover!(o.check.is_none(), "rejected");
}
/// only the first child of a two-element body is forced to progress
pub const PROG1: [u8; ABS_IDS] = [1, 0, 0, 0];

// rule structs around an abstract inner, as the generator's macros build them
pub mod rules {
    use super::*;
    pub type Ign<'i> = AbsSkip<3>;
    type InnerSeq<const S: usize> =
        Seq2<Skipped<Abs<0, 1>, AbsSkip<3>, S>, Skipped<Abs<1, 2>, AbsSkip<3>, S>>;
    pest_typed::normal_rule!(normal, "normal rule", R, R::X, InnerSeq<INHERITED>, AbsSkip<3>, false);
    pest_typed::normal_rule!(normal_boxed, "normal rule, boxed", R, R::X, InnerSeq<INHERITED>, AbsSkip<3>, true);
    pest_typed::silent_rule!(silent, "silent rule", R, R::Y, InnerSeq<INHERITED>, AbsSkip<3>, false);
    pest_typed::atomic_rule!(atomic, "atomic rule", R, R::X, InnerSeq<0>);
    pest_typed::compound_atomic_rule!(compound, "compound atomic rule", R, R::X, InnerSeq<0>, false);
    pest_typed::non_atomic_rule!(non_atomic, "non-atomic rule", R, R::X, InnerSeq<1>, AbsSkip<3>, false);
    pest_typed::rule_eoi!(EOI, R);
}
pub type RInnerSeq<const S: usize> = RSeq2<RSk, S, RAbs<0, 1>, RAbs<1, 2>>;

harnesses! {
    // ---- sequences
    #[kani::unwind(5)] fn c03_abs_seq2() [T0 S] : "Q|Seq2<push,pop> without skip: parse==check==reference; abstract children, 3 positions, initial depth 0" {
        abs3::<Seq2<Nk<Abs<0, 1>>, Nk<Abs<1, 2>>>, RSeq2<RSk, 0, RAbs<0, 1>, RAbs<1, 2>>>(FREE, 0) }
    #[kani::unwind(5)] fn c03_abs_seq3_skip() [T0 S] : "Q|Seq3 with abstract skip between elements (push, pure, pop)" {
        abs3::<Seq3<Sk<Abs<0, 1>>, Sk<Abs<1, 0>>, Sk<Abs<2, 2>>>, RSeq3<RSk, 1, RAbs<0, 1>, RAbs<1, 0>, RAbs<2, 2>>>(FREE, 0) }
    #[kani::unwind(5)] fn c03_abs_seq4_skip() [T0 S] : "Q|Seq4 with skip" {
        abs3::<Seq4<Sk<Abs<0, 0>>, Sk<Abs<1, 1>>, Sk<Abs<2, 3>>, Sk<Abs<0, 2>>>, RSeq4<RSk, 1, RAbs<0, 0>, RAbs<1, 1>, RAbs<2, 3>, RAbs<0, 2>>>(FREE, 1) }
    #[kani::unwind(5)] fn c03_abs_seq5_skip() [T0 S] : "Q|Seq5 with skip" {
        abs3::<Seq5<Sk<Abs<0, 0>>, Sk<Abs<1, 1>>, Sk<Abs<2, 0>>, Sk<Abs<0, 2>>, Sk<Abs<1, 0>>>, RSeq5<RSk, 1, RAbs<0, 0>, RAbs<1, 1>, RAbs<2, 0>, RAbs<0, 2>, RAbs<1, 0>>>(FREE, 0) }
    // ---- choices
    #[kani::unwind(5)] fn c03_abs_choice2() [T0 S] : "Q|Choice2<push,pop>, initial depth 1" {
        abs3::<Choice2<Abs<0, 1>, Abs<1, 2>>, RChoice2<RAbs<0, 1>, RAbs<1, 2>>>(FREE, 1) }
    #[kani::unwind(5)] fn c03_abs_choice3() [T0 S] : "Q|Choice3<push,pop,pure>, initial depth 1" {
        abs3::<Choice3<Abs<0, 1>, Abs<1, 2>, Abs<2, 0>>, RChoice3<RAbs<0, 1>, RAbs<1, 2>, RAbs<2, 0>>>(FREE, 1) }
    #[kani::unwind(5)] fn c03_abs_choice4() [T0 S] : "Q|Choice4 incl. a depth-reading alternative, initial depth 2" {
        abs3::<Choice4<Abs<0, 2>, Abs<1, 3>, Abs<2, 1>, Abs<0, 0>>, RChoice4<RAbs<0, 2>, RAbs<1, 3>, RAbs<2, 1>, RAbs<0, 0>>>(FREE, 2) }
    // ---- option, array, pair
    #[kani::unwind(5)] fn c03_abs_option() [T0 S] : "Q|Option<Seq2<pop,pure>>: a failed body restores the popped entry" {
        abs3nf::<Option<Seq2<Nk<Abs<0, 2>>, Nk<Abs<1, 0>>>>, ROpt<RSeq2<RSk, 0, RAbs<0, 2>, RAbs<1, 0>>>>(FREE, 1) }
    #[kani::unwind(5)] fn c03_abs_array2() [T0 S] : "Q|[T;2] of a pushing child" {
        abs3::<[Abs<0, 1>; 2], RArr<RAbs<0, 1>, 2>>(FREE, 0) }
    #[kani::unwind(5)] fn c03_abs_pair() [T0 S] : "Q|(T1,T2)" {
        abs3::<(Abs<0, 1>, Abs<1, 2>), RPair<RAbs<0, 1>, RAbs<1, 2>>>(FREE, 0) }
    // ---- repetitions
    #[kani::unwind(5)] fn c03_abs_rep0_skip() [T0 S] : "Q|RepMin<push,skip,MIN=0> (e*): skip before iterations > 0, given back on failure" {
        abs3nf::<RepMin<Abs<0, 1>, AbsSkip<3>, 1, 0>, RRep<RSk, 1, RAbs<0, 1>, 0, { usize::MAX }>>(PROG, 0) }
    #[kani::unwind(5)] fn c03_abs_rep1_skip() [T0 S] : "Q|RepMin<_,skip,MIN=1> (e+)" {
        abs3::<RepMin<Abs<0, 3>, AbsSkip<3>, 1, 1>, RRep<RSk, 1, RAbs<0, 3>, 1, { usize::MAX }>>(PROG, 1) }
    #[kani::unwind(5)] fn c03_abs_rep2_noskip() [T0 S] : "Q|RepMin<_,MIN=2> without skip, body = Seq2<pop,push>" {
        abs3::<RepMin<Seq2<Nk<Abs<0, 2>>, Nk<Abs<1, 1>>>, AbsSkip<3>, 0, 2>, RRep<RSk, 0, RSeq2<RSk, 0, RAbs<0, 2>, RAbs<1, 1>>, 2, { usize::MAX }>>(PROG1, 1) }
    #[kani::unwind(5)] fn c03_abs_repminmax12() [T0 S] : "Q|RepMinMax<_,1,2> with skip" {
        abs3::<RepMinMax<Abs<0, 1>, AbsSkip<3>, 1, 1, 2>, RRep<RSk, 1, RAbs<0, 1>, 1, 2>>(PROG, 0) }
    #[kani::unwind(5)] fn c03_abs_repexact2() [T0 S] : "Q|RepExact<_,2> with skip" {
        abs3::<RepExact<Abs<0, 1>, AbsSkip<3>, 1, 2>, RRep<RSk, 1, RAbs<0, 1>, 2, 2>>(FREE, 0) }
    #[kani::unwind(5)] fn c03_abs_atomic_repeat() [T0 S] : "Q|AtomicRepeat<Choice2<push,pop>> (the skip node itself)" {
        abs3nf::<AtomicRepeat<Choice2<Abs<0, 1>, Abs<1, 2>>>, RRep<REmpty, 0, RChoice2<RAbs<0, 1>, RAbs<1, 2>>, 0, { usize::MAX }>>(PROG, 1) }
    // ---- predicates, push
    #[kani::unwind(5)] fn c03_abs_positive() [T0 S] : "Q|Positive<Seq2<push,pure>>: stack restored even on success, on both paths" {
        abs3z::<Positive<Seq2<Nk<Abs<0, 1>>, Nk<Abs<1, 0>>>>, RPos<RSeq2<RSk, 0, RAbs<0, 1>, RAbs<1, 0>>>>(FREE, 1) }
    #[kani::unwind(5)] fn c03_abs_positive_pop() [T0 S] : "Q|Positive<Seq2<pop,pure>>: a popped entry is back after a successful lookahead, on both paths" {
        abs3z::<Positive<Seq2<Nk<Abs<0, 2>>, Nk<Abs<1, 0>>>>, RPos<RSeq2<RSk, 0, RAbs<0, 2>, RAbs<1, 0>>>>(FREE, 2) }
    #[kani::unwind(5)] fn c03_abs_negative() [T0 S] : "Q|Negative<Seq2<pop,pure>>" {
        abs3z::<Negative<Seq2<Nk<Abs<0, 2>>, Nk<Abs<1, 0>>>>, RNeg<RSeq2<RSk, 0, RAbs<0, 2>, RAbs<1, 0>>>>(FREE, 1) }
    #[kani::unwind(5)] fn c03_abs_push() [T0 S] : "Q|Push<Seq2 with skip>" {
        abs3::<Push<Seq2<Sk<Abs<0, 0>>, Sk<Abs<1, 0>>>>, RPush<RSeq2<RSk, 1, RAbs<0, 0>, RAbs<1, 0>>>>(FREE, 0) }
    // ---- nests
    #[kani::unwind(5)] fn c03_abs_nest1() [T0 S] : "Q|Seq2<push, Choice2<Seq2<Option<pop>, pure>, pop>> (the shape of the pest clear_snapshot divergence; on the model stack)" {
        abs3::<Seq2<Nk<Abs<0, 1>>, Nk<Choice2<Seq2<Nk<Option<Abs<1, 2>>>, Nk<Abs<2, 0>>>, Abs<1, 2>>>>,
               RSeq2<RSk, 0, RAbs<0, 1>, RChoice2<RSeq2<RSk, 0, ROpt<RAbs<1, 2>>, RAbs<2, 0>>, RAbs<1, 2>>>>(FREE, 0) }
    #[kani::unwind(5)] fn c03_abs_nest2() [T0 S] : "Q|Rep<Choice2<Seq2<push,pure>, Negative<pop>>> with skip" {
        abs3nf::<RepMin<Choice2<Seq2<Sk<Abs<0, 1>>, Sk<Abs<1, 0>>>, Seq2<Sk<Negative<Abs<2, 2>>>, Sk<Abs<1, 0>>>>, AbsSkip<3>, 1, 0>,
                 RRep<RSk, 1, RChoice2<RSeq2<RSk, 1, RAbs<0, 1>, RAbs<1, 0>>, RSeq2<RSk, 1, RNeg<RAbs<2, 2>>, RAbs<1, 0>>>, 0, { usize::MAX }>>(PROG, 0) }
    // ---- the five rule macros + EOI around an abstract inner
    #[kani::unwind(5)] fn c03_rule_normal() [T0 S] : "Q|normal_rule! (INHERITED=1) around Seq2<push,pop>" {
        abs3::<rules::normal<'_, 1>, RInnerSeq<1>>(FREE, 0) }
    #[kani::unwind(5)] fn c03_rule_normal_inh0() [T0 S] : "Q|normal_rule! with INHERITED=0 (called from an atomic context): no skip" {
        abs3::<rules::normal<'_, 0>, RInnerSeq<0>>(FREE, 0) }
    #[kani::unwind(5)] fn c03_rule_normal_boxed() [T0 S] : "Q|normal_rule!, boxed content" {
        abs3::<rules::normal_boxed<'_, 1>, RInnerSeq<1>>(FREE, 0) }
    #[kani::unwind(5)] fn c03_rule_silent() [T0 S] : "Q|silent_rule!" {
        abs3::<rules::silent<'_, 1>, RInnerSeq<1>>(FREE, 0) }
    #[kani::unwind(5)] fn c03_rule_atomic() [T0 S] : "Q|atomic_rule!: parse goes through the check path of the content" {
        abs3::<rules::atomic<'_, 1>, RInnerSeq<0>>(FREE, 0) }
    #[kani::unwind(5)] fn c03_rule_compound() [T0 S] : "Q|compound_atomic_rule!" {
        abs3::<rules::compound<'_, 1>, RInnerSeq<0>>(FREE, 0) }
    #[kani::unwind(5)] fn c03_rule_non_atomic() [T0 S] : "Q|non_atomic_rule! under INHERITED=0: skipping switched back on" {
        abs3::<rules::non_atomic<'_, 0>, RInnerSeq<1>>(FREE, 0) }
    #[kani::unwind(5)] fn c03_rule_eoi() [T0 S] : "Q|rule_eoi!" {
        abs3z::<rules::EOI<'_, 1>, REoiRaw>(FREE, 0) }
}
