//! Thorough tier of c03: the same abstract-children steps over 4 and 5 input positions (generated from c03.rs; do not edit).
use crate::c03::*;
use crate::common::*;
use crate::refpeg::*;
use crate::rel::*;
use pest_typed::choices::*;
use pest_typed::predefined_node::*;
use pest_typed::sequence::*;

harnesses! {
    #[kani::unwind(6)] fn c03_abs_seq2_n4() [T0 S] : "T|Seq2<push,pop> without skip: parse==check==reference; abstract children, 4 positions, initial depth 0 [4 input positions]" {
        absn::<5, Seq2<Nk<Abs<0, 1>>, Nk<Abs<1, 2>>>, RSeq2<RSk, 0, RAbs<0, 1>, RAbs<1, 2>>>(FREE, 0, 0) }
    #[kani::unwind(7)] fn c03_abs_seq2_n5() [T0 S] : "T|Seq2<push,pop> without skip: parse==check==reference; abstract children, 5 positions, initial depth 0 [5 input positions]" {
        absn::<6, Seq2<Nk<Abs<0, 1>>, Nk<Abs<1, 2>>>, RSeq2<RSk, 0, RAbs<0, 1>, RAbs<1, 2>>>(FREE, 0, 0) }
    #[kani::unwind(6)] fn c03_abs_seq3_skip_n4() [T0 S] : "T|Seq3 with abstract skip between elements (push, pure, pop) [4 input positions]" {
        absn::<5, Seq3<Sk<Abs<0, 1>>, Sk<Abs<1, 0>>, Sk<Abs<2, 2>>>, RSeq3<RSk, 1, RAbs<0, 1>, RAbs<1, 0>, RAbs<2, 2>>>(FREE, 0, 0) }
    #[kani::unwind(7)] fn c03_abs_seq3_skip_n5() [T0 S] : "T|Seq3 with abstract skip between elements (push, pure, pop) [5 input positions]" {
        absn::<6, Seq3<Sk<Abs<0, 1>>, Sk<Abs<1, 0>>, Sk<Abs<2, 2>>>, RSeq3<RSk, 1, RAbs<0, 1>, RAbs<1, 0>, RAbs<2, 2>>>(FREE, 0, 0) }
    #[kani::unwind(6)] fn c03_abs_seq4_skip_n4() [T0 S] : "T|Seq4 with skip [4 input positions]" {
        absn::<5, Seq4<Sk<Abs<0, 0>>, Sk<Abs<1, 1>>, Sk<Abs<2, 3>>, Sk<Abs<0, 2>>>, RSeq4<RSk, 1, RAbs<0, 0>, RAbs<1, 1>, RAbs<2, 3>, RAbs<0, 2>>>(FREE, 1, 0) }
    #[kani::unwind(7)] fn c03_abs_seq4_skip_n5() [T0 S] : "T|Seq4 with skip [5 input positions]" {
        absn::<6, Seq4<Sk<Abs<0, 0>>, Sk<Abs<1, 1>>, Sk<Abs<2, 3>>, Sk<Abs<0, 2>>>, RSeq4<RSk, 1, RAbs<0, 0>, RAbs<1, 1>, RAbs<2, 3>, RAbs<0, 2>>>(FREE, 1, 0) }
    #[kani::unwind(6)] fn c03_abs_seq5_skip_n4() [T0 S] : "T|Seq5 with skip [4 input positions]" {
        absn::<5, Seq5<Sk<Abs<0, 0>>, Sk<Abs<1, 1>>, Sk<Abs<2, 0>>, Sk<Abs<0, 2>>, Sk<Abs<1, 0>>>, RSeq5<RSk, 1, RAbs<0, 0>, RAbs<1, 1>, RAbs<2, 0>, RAbs<0, 2>, RAbs<1, 0>>>(FREE, 0, 0) }
    #[kani::unwind(7)] fn c03_abs_seq5_skip_n5() [T0 S] : "T|Seq5 with skip [5 input positions]" {
        absn::<6, Seq5<Sk<Abs<0, 0>>, Sk<Abs<1, 1>>, Sk<Abs<2, 0>>, Sk<Abs<0, 2>>, Sk<Abs<1, 0>>>, RSeq5<RSk, 1, RAbs<0, 0>, RAbs<1, 1>, RAbs<2, 0>, RAbs<0, 2>, RAbs<1, 0>>>(FREE, 0, 0) }
    #[kani::unwind(6)] fn c03_abs_choice2_n4() [T0 S] : "T|Choice2<push,pop>, initial depth 1 [4 input positions]" {
        absn::<5, Choice2<Abs<0, 1>, Abs<1, 2>>, RChoice2<RAbs<0, 1>, RAbs<1, 2>>>(FREE, 1, 0) }
    #[kani::unwind(7)] fn c03_abs_choice2_n5() [T0 S] : "T|Choice2<push,pop>, initial depth 1 [5 input positions]" {
        absn::<6, Choice2<Abs<0, 1>, Abs<1, 2>>, RChoice2<RAbs<0, 1>, RAbs<1, 2>>>(FREE, 1, 0) }
    #[kani::unwind(6)] fn c03_abs_choice3_n4() [T0 S] : "T|Choice3<push,pop,pure>, initial depth 1 [4 input positions]" {
        absn::<5, Choice3<Abs<0, 1>, Abs<1, 2>, Abs<2, 0>>, RChoice3<RAbs<0, 1>, RAbs<1, 2>, RAbs<2, 0>>>(FREE, 1, 0) }
    #[kani::unwind(7)] fn c03_abs_choice3_n5() [T0 S] : "T|Choice3<push,pop,pure>, initial depth 1 [5 input positions]" {
        absn::<6, Choice3<Abs<0, 1>, Abs<1, 2>, Abs<2, 0>>, RChoice3<RAbs<0, 1>, RAbs<1, 2>, RAbs<2, 0>>>(FREE, 1, 0) }
    #[kani::unwind(6)] fn c03_abs_choice4_n4() [T0 S] : "T|Choice4 incl. a depth-reading alternative, initial depth 2 [4 input positions]" {
        absn::<5, Choice4<Abs<0, 2>, Abs<1, 3>, Abs<2, 1>, Abs<0, 0>>, RChoice4<RAbs<0, 2>, RAbs<1, 3>, RAbs<2, 1>, RAbs<0, 0>>>(FREE, 2, 0) }
    #[kani::unwind(7)] fn c03_abs_choice4_n5() [T0 S] : "T|Choice4 incl. a depth-reading alternative, initial depth 2 [5 input positions]" {
        absn::<6, Choice4<Abs<0, 2>, Abs<1, 3>, Abs<2, 1>, Abs<0, 0>>, RChoice4<RAbs<0, 2>, RAbs<1, 3>, RAbs<2, 1>, RAbs<0, 0>>>(FREE, 2, 0) }
    #[kani::unwind(6)] fn c03_abs_option_n4() [T0 S] : "T|Option<Seq2<pop,pure>>: a failed body restores the popped entry [4 input positions]" {
        absn::<5, Option<Seq2<Nk<Abs<0, 2>>, Nk<Abs<1, 0>>>>, ROpt<RSeq2<RSk, 0, RAbs<0, 2>, RAbs<1, 0>>>>(FREE, 1, 1) }
    #[kani::unwind(7)] fn c03_abs_option_n5() [T0 S] : "T|Option<Seq2<pop,pure>>: a failed body restores the popped entry [5 input positions]" {
        absn::<6, Option<Seq2<Nk<Abs<0, 2>>, Nk<Abs<1, 0>>>>, ROpt<RSeq2<RSk, 0, RAbs<0, 2>, RAbs<1, 0>>>>(FREE, 1, 1) }
    #[kani::unwind(6)] fn c03_abs_array2_n4() [T0 S] : "T|[T;2] of a pushing child [4 input positions]" {
        absn::<5, [Abs<0, 1>; 2], RArr<RAbs<0, 1>, 2>>(FREE, 0, 0) }
    #[kani::unwind(7)] fn c03_abs_array2_n5() [T0 S] : "T|[T;2] of a pushing child [5 input positions]" {
        absn::<6, [Abs<0, 1>; 2], RArr<RAbs<0, 1>, 2>>(FREE, 0, 0) }
    #[kani::unwind(6)] fn c03_abs_pair_n4() [T0 S] : "T|(T1,T2) [4 input positions]" {
        absn::<5, (Abs<0, 1>, Abs<1, 2>), RPair<RAbs<0, 1>, RAbs<1, 2>>>(FREE, 0, 0) }
    #[kani::unwind(7)] fn c03_abs_pair_n5() [T0 S] : "T|(T1,T2) [5 input positions]" {
        absn::<6, (Abs<0, 1>, Abs<1, 2>), RPair<RAbs<0, 1>, RAbs<1, 2>>>(FREE, 0, 0) }
    #[kani::unwind(6)] fn c03_abs_rep0_skip_n4() [T0 S] : "T|RepMin<push,skip,MIN=0> (e*): skip before iterations > 0, given back on failure [4 input positions]" {
        absn::<5, RepMin<Abs<0, 1>, AbsSkip<3>, 1, 0>, RRep<RSk, 1, RAbs<0, 1>, 0, { usize::MAX }>>(PROG, 0, 1) }
    #[kani::unwind(7)] fn c03_abs_rep0_skip_n5() [T0 S] : "T|RepMin<push,skip,MIN=0> (e*): skip before iterations > 0, given back on failure [5 input positions]" {
        absn::<6, RepMin<Abs<0, 1>, AbsSkip<3>, 1, 0>, RRep<RSk, 1, RAbs<0, 1>, 0, { usize::MAX }>>(PROG, 0, 1) }
    #[kani::unwind(6)] fn c03_abs_rep1_skip_n4() [T0 S] : "T|RepMin<_,skip,MIN=1> (e+) [4 input positions]" {
        absn::<5, RepMin<Abs<0, 3>, AbsSkip<3>, 1, 1>, RRep<RSk, 1, RAbs<0, 3>, 1, { usize::MAX }>>(PROG, 1, 0) }
    #[kani::unwind(7)] fn c03_abs_rep1_skip_n5() [T0 S] : "T|RepMin<_,skip,MIN=1> (e+) [5 input positions]" {
        absn::<6, RepMin<Abs<0, 3>, AbsSkip<3>, 1, 1>, RRep<RSk, 1, RAbs<0, 3>, 1, { usize::MAX }>>(PROG, 1, 0) }
    #[kani::unwind(6)] fn c03_abs_rep2_noskip_n4() [T0 S] : "T|RepMin<_,MIN=2> without skip, body = Seq2<pop,push> [4 input positions]" {
        absn::<5, RepMin<Seq2<Nk<Abs<0, 2>>, Nk<Abs<1, 1>>>, AbsSkip<3>, 0, 2>, RRep<RSk, 0, RSeq2<RSk, 0, RAbs<0, 2>, RAbs<1, 1>>, 2, { usize::MAX }>>(PROG1, 1, 0) }
    #[kani::unwind(7)] fn c03_abs_rep2_noskip_n5() [T0 S] : "T|RepMin<_,MIN=2> without skip, body = Seq2<pop,push> [5 input positions]" {
        absn::<6, RepMin<Seq2<Nk<Abs<0, 2>>, Nk<Abs<1, 1>>>, AbsSkip<3>, 0, 2>, RRep<RSk, 0, RSeq2<RSk, 0, RAbs<0, 2>, RAbs<1, 1>>, 2, { usize::MAX }>>(PROG1, 1, 0) }
    #[kani::unwind(6)] fn c03_abs_repminmax12_n4() [T0 S] : "T|RepMinMax<_,1,2> with skip [4 input positions]" {
        absn::<5, RepMinMax<Abs<0, 1>, AbsSkip<3>, 1, 1, 2>, RRep<RSk, 1, RAbs<0, 1>, 1, 2>>(PROG, 0, 0) }
    #[kani::unwind(7)] fn c03_abs_repminmax12_n5() [T0 S] : "T|RepMinMax<_,1,2> with skip [5 input positions]" {
        absn::<6, RepMinMax<Abs<0, 1>, AbsSkip<3>, 1, 1, 2>, RRep<RSk, 1, RAbs<0, 1>, 1, 2>>(PROG, 0, 0) }
    #[kani::unwind(6)] fn c03_abs_repexact2_n4() [T0 S] : "T|RepExact<_,2> with skip [4 input positions]" {
        absn::<5, RepExact<Abs<0, 1>, AbsSkip<3>, 1, 2>, RRep<RSk, 1, RAbs<0, 1>, 2, 2>>(FREE, 0, 0) }
    #[kani::unwind(7)] fn c03_abs_repexact2_n5() [T0 S] : "T|RepExact<_,2> with skip [5 input positions]" {
        absn::<6, RepExact<Abs<0, 1>, AbsSkip<3>, 1, 2>, RRep<RSk, 1, RAbs<0, 1>, 2, 2>>(FREE, 0, 0) }
    #[kani::unwind(6)] fn c03_abs_atomic_repeat_n4() [T0 S] : "T|AtomicRepeat<Choice2<push,pop>> (the skip node itself) [4 input positions]" {
        absn::<5, AtomicRepeat<Choice2<Abs<0, 1>, Abs<1, 2>>>, RRep<REmpty, 0, RChoice2<RAbs<0, 1>, RAbs<1, 2>>, 0, { usize::MAX }>>(PROG, 1, 1) }
    #[kani::unwind(7)] fn c03_abs_atomic_repeat_n5() [T0 S] : "T|AtomicRepeat<Choice2<push,pop>> (the skip node itself) [5 input positions]" {
        absn::<6, AtomicRepeat<Choice2<Abs<0, 1>, Abs<1, 2>>>, RRep<REmpty, 0, RChoice2<RAbs<0, 1>, RAbs<1, 2>>, 0, { usize::MAX }>>(PROG, 1, 1) }
    #[kani::unwind(6)] fn c03_abs_positive_n4() [T0 S] : "T|Positive<Seq2<push,pure>>: stack restored even on success, on both paths [4 input positions]" {
        absn::<5, Positive<Seq2<Nk<Abs<0, 1>>, Nk<Abs<1, 0>>>>, RPos<RSeq2<RSk, 0, RAbs<0, 1>, RAbs<1, 0>>>>(FREE, 1, 2) }
    #[kani::unwind(7)] fn c03_abs_positive_n5() [T0 S] : "T|Positive<Seq2<push,pure>>: stack restored even on success, on both paths [5 input positions]" {
        absn::<6, Positive<Seq2<Nk<Abs<0, 1>>, Nk<Abs<1, 0>>>>, RPos<RSeq2<RSk, 0, RAbs<0, 1>, RAbs<1, 0>>>>(FREE, 1, 2) }
    #[kani::unwind(6)] fn c03_abs_positive_pop_n4() [T0 S] : "T|Positive<Seq2<pop,pure>>: a popped entry is back after a successful lookahead, on both paths [4 input positions]" {
        absn::<5, Positive<Seq2<Nk<Abs<0, 2>>, Nk<Abs<1, 0>>>>, RPos<RSeq2<RSk, 0, RAbs<0, 2>, RAbs<1, 0>>>>(FREE, 2, 2) }
    #[kani::unwind(7)] fn c03_abs_positive_pop_n5() [T0 S] : "T|Positive<Seq2<pop,pure>>: a popped entry is back after a successful lookahead, on both paths [5 input positions]" {
        absn::<6, Positive<Seq2<Nk<Abs<0, 2>>, Nk<Abs<1, 0>>>>, RPos<RSeq2<RSk, 0, RAbs<0, 2>, RAbs<1, 0>>>>(FREE, 2, 2) }
    #[kani::unwind(6)] fn c03_abs_negative_n4() [T0 S] : "T|Negative<Seq2<pop,pure>> [4 input positions]" {
        absn::<5, Negative<Seq2<Nk<Abs<0, 2>>, Nk<Abs<1, 0>>>>, RNeg<RSeq2<RSk, 0, RAbs<0, 2>, RAbs<1, 0>>>>(FREE, 1, 2) }
    #[kani::unwind(7)] fn c03_abs_negative_n5() [T0 S] : "T|Negative<Seq2<pop,pure>> [5 input positions]" {
        absn::<6, Negative<Seq2<Nk<Abs<0, 2>>, Nk<Abs<1, 0>>>>, RNeg<RSeq2<RSk, 0, RAbs<0, 2>, RAbs<1, 0>>>>(FREE, 1, 2) }
    #[kani::unwind(6)] fn c03_abs_push_n4() [T0 S] : "T|Push<Seq2 with skip> [4 input positions]" {
        absn::<5, Push<Seq2<Sk<Abs<0, 0>>, Sk<Abs<1, 0>>>>, RPush<RSeq2<RSk, 1, RAbs<0, 0>, RAbs<1, 0>>>>(FREE, 0, 0) }
    #[kani::unwind(7)] fn c03_abs_push_n5() [T0 S] : "T|Push<Seq2 with skip> [5 input positions]" {
        absn::<6, Push<Seq2<Sk<Abs<0, 0>>, Sk<Abs<1, 0>>>>, RPush<RSeq2<RSk, 1, RAbs<0, 0>, RAbs<1, 0>>>>(FREE, 0, 0) }
    #[kani::unwind(6)] fn c03_abs_nest1_n4() [T0 S] : "T|Seq2<push, Choice2<Seq2<Option<pop>, pure>, pop>> (the shape of the pest clear_snapshot divergence; on the model stack) [4 input positions]" {
        absn::<5, Seq2<Nk<Abs<0, 1>>, Nk<Choice2<Seq2<Nk<Option<Abs<1, 2>>>, Nk<Abs<2, 0>>>, Abs<1, 2>>>>, RSeq2<RSk, 0, RAbs<0, 1>, RChoice2<RSeq2<RSk, 0, ROpt<RAbs<1, 2>>, RAbs<2, 0>>, RAbs<1, 2>>>>(FREE, 0, 0) }
    #[kani::unwind(7)] fn c03_abs_nest1_n5() [T0 S] : "T|Seq2<push, Choice2<Seq2<Option<pop>, pure>, pop>> (the shape of the pest clear_snapshot divergence; on the model stack) [5 input positions]" {
        absn::<6, Seq2<Nk<Abs<0, 1>>, Nk<Choice2<Seq2<Nk<Option<Abs<1, 2>>>, Nk<Abs<2, 0>>>, Abs<1, 2>>>>, RSeq2<RSk, 0, RAbs<0, 1>, RChoice2<RSeq2<RSk, 0, ROpt<RAbs<1, 2>>, RAbs<2, 0>>, RAbs<1, 2>>>>(FREE, 0, 0) }
    #[kani::unwind(6)] fn c03_abs_nest2_n4() [T0 S] : "T|Rep<Choice2<Seq2<push,pure>, Negative<pop>>> with skip [4 input positions]" {
        absn::<5, RepMin<Choice2<Seq2<Sk<Abs<0, 1>>, Sk<Abs<1, 0>>>, Seq2<Sk<Negative<Abs<2, 2>>>, Sk<Abs<1, 0>>>>, AbsSkip<3>, 1, 0>, RRep<RSk, 1, RChoice2<RSeq2<RSk, 1, RAbs<0, 1>, RAbs<1, 0>>, RSeq2<RSk, 1, RNeg<RAbs<2, 2>>, RAbs<1, 0>>>, 0, { usize::MAX }>>(PROG, 0, 1) }
    #[kani::unwind(7)] fn c03_abs_nest2_n5() [T0 S] : "T|Rep<Choice2<Seq2<push,pure>, Negative<pop>>> with skip [5 input positions]" {
        absn::<6, RepMin<Choice2<Seq2<Sk<Abs<0, 1>>, Sk<Abs<1, 0>>>, Seq2<Sk<Negative<Abs<2, 2>>>, Sk<Abs<1, 0>>>>, AbsSkip<3>, 1, 0>, RRep<RSk, 1, RChoice2<RSeq2<RSk, 1, RAbs<0, 1>, RAbs<1, 0>>, RSeq2<RSk, 1, RNeg<RAbs<2, 2>>, RAbs<1, 0>>>, 0, { usize::MAX }>>(PROG, 0, 1) }
    #[kani::unwind(6)] fn c03_rule_normal_n4() [T0 S] : "T|normal_rule! (INHERITED=1) around Seq2<push,pop> [4 input positions]" {
        absn::<5, rules::normal<'_, 1>, RInnerSeq<1>>(FREE, 0, 0) }
    #[kani::unwind(7)] fn c03_rule_normal_n5() [T0 S] : "T|normal_rule! (INHERITED=1) around Seq2<push,pop> [5 input positions]" {
        absn::<6, rules::normal<'_, 1>, RInnerSeq<1>>(FREE, 0, 0) }
    #[kani::unwind(6)] fn c03_rule_normal_inh0_n4() [T0 S] : "T|normal_rule! with INHERITED=0 (called from an atomic context): no skip [4 input positions]" {
        absn::<5, rules::normal<'_, 0>, RInnerSeq<0>>(FREE, 0, 0) }
    #[kani::unwind(7)] fn c03_rule_normal_inh0_n5() [T0 S] : "T|normal_rule! with INHERITED=0 (called from an atomic context): no skip [5 input positions]" {
        absn::<6, rules::normal<'_, 0>, RInnerSeq<0>>(FREE, 0, 0) }
    #[kani::unwind(6)] fn c03_rule_normal_boxed_n4() [T0 S] : "T|normal_rule!, boxed content [4 input positions]" {
        absn::<5, rules::normal_boxed<'_, 1>, RInnerSeq<1>>(FREE, 0, 0) }
    #[kani::unwind(7)] fn c03_rule_normal_boxed_n5() [T0 S] : "T|normal_rule!, boxed content [5 input positions]" {
        absn::<6, rules::normal_boxed<'_, 1>, RInnerSeq<1>>(FREE, 0, 0) }
    #[kani::unwind(6)] fn c03_rule_silent_n4() [T0 S] : "T|silent_rule! [4 input positions]" {
        absn::<5, rules::silent<'_, 1>, RInnerSeq<1>>(FREE, 0, 0) }
    #[kani::unwind(7)] fn c03_rule_silent_n5() [T0 S] : "T|silent_rule! [5 input positions]" {
        absn::<6, rules::silent<'_, 1>, RInnerSeq<1>>(FREE, 0, 0) }
    #[kani::unwind(6)] fn c03_rule_atomic_n4() [T0 S] : "T|atomic_rule!: parse goes through the check path of the content [4 input positions]" {
        absn::<5, rules::atomic<'_, 1>, RInnerSeq<0>>(FREE, 0, 0) }
    #[kani::unwind(7)] fn c03_rule_atomic_n5() [T0 S] : "T|atomic_rule!: parse goes through the check path of the content [5 input positions]" {
        absn::<6, rules::atomic<'_, 1>, RInnerSeq<0>>(FREE, 0, 0) }
    #[kani::unwind(6)] fn c03_rule_compound_n4() [T0 S] : "T|compound_atomic_rule! [4 input positions]" {
        absn::<5, rules::compound<'_, 1>, RInnerSeq<0>>(FREE, 0, 0) }
    #[kani::unwind(7)] fn c03_rule_compound_n5() [T0 S] : "T|compound_atomic_rule! [5 input positions]" {
        absn::<6, rules::compound<'_, 1>, RInnerSeq<0>>(FREE, 0, 0) }
    #[kani::unwind(6)] fn c03_rule_non_atomic_n4() [T0 S] : "T|non_atomic_rule! under INHERITED=0: skipping switched back on [4 input positions]" {
        absn::<5, rules::non_atomic<'_, 0>, RInnerSeq<1>>(FREE, 0, 0) }
    #[kani::unwind(7)] fn c03_rule_non_atomic_n5() [T0 S] : "T|non_atomic_rule! under INHERITED=0: skipping switched back on [5 input positions]" {
        absn::<6, rules::non_atomic<'_, 0>, RInnerSeq<1>>(FREE, 0, 0) }
    #[kani::unwind(6)] fn c03_rule_eoi_n4() [T0 S] : "T|rule_eoi! [4 input positions]" {
        absn::<5, rules::EOI<'_, 1>, REoiRaw>(FREE, 0, 2) }
    #[kani::unwind(7)] fn c03_rule_eoi_n5() [T0 S] : "T|rule_eoi! [5 input positions]" {
        absn::<6, rules::EOI<'_, 1>, REoiRaw>(FREE, 0, 2) }
}
