//! C18 — parse results are deterministic values, stable under clone, eq and hash.
use crate::c03::{rules, FREE};
use crate::c17::{Sx, W};
use crate::common::*;
use crate::nd;
use crate::refpeg::*;
use crate::rel::*;
use core::hash::{Hash, Hasher};
use pest_typed::choices::*;
use pest_typed::predefined_node::*;
use pest_typed::sequence::*;
use pest_typed::tracker::Tracker;
use pest_typed::{AsInput, Position, Span, TypedNode};

/// Recording hasher: the stream of words a value feeds is the observable (one word per write_* call,
/// one word per byte for raw byte writes).
pub const HW: usize = 40;
pub struct RecH {
    pub buf: [u64; HW],
    pub n: usize,
}
impl RecH {
    pub fn new() -> Self {
        RecH { buf: [0; HW], n: 0 }
    }
    fn word(&mut self, w: u64) {
        if self.n < HW {
            self.buf[self.n] = w;
        }
        self.n += 1;
    }
}
impl Hasher for RecH {
    fn finish(&self) -> u64 {
        self.n as u64
    }
    fn write(&mut self, bytes: &[u8]) {
        let mut i = 0;
        while i < bytes.len() {
            self.word(bytes[i] as u64 | 0x100);
            i += 1;
        }
    }
    fn write_u8(&mut self, i: u8) { self.word(i as u64) }
    fn write_u16(&mut self, i: u16) { self.word(i as u64) }
    fn write_u32(&mut self, i: u32) { self.word(i as u64) }
    fn write_u64(&mut self, i: u64) { self.word(i) }
    fn write_usize(&mut self, i: usize) { self.word(i as u64) }
    fn write_i8(&mut self, i: i8) { self.word(i as u64) }
    fn write_i16(&mut self, i: i16) { self.word(i as u64) }
    fn write_i32(&mut self, i: i32) { self.word(i as u64) }
    fn write_i64(&mut self, i: i64) { self.word(i as u64) }
    fn write_isize(&mut self, i: isize) { self.word(i as u64) }
}
pub fn stream<T: Hash>(v: &T) -> RecH {
    let mut h = RecH::new();
    v.hash(&mut h);
    assert!(h.n <= HW, "hash stream longer than the recording buffer (harness bound)");
    h
}
pub fn same_stream(a: &RecH, b: &RecH) -> bool {
    if a.n != b.n {
        return false;
    }
    let mut ok = true;
    let mut i = 0;
    while i < HW {
        if i < a.n && a.buf[i] != b.buf[i] {
            ok = false;
        }
        i += 1;
    }
    ok
}

/// The same recording with 16 words and a loop-free comparison, for harnesses whose code under test has
/// input-dependent loops (the harness-wide unwind bound can then follow the input length, not `HW`).
pub const HS: usize = 16;
pub struct RecS {
    pub buf: [u64; HS],
    pub n: usize,
}
impl RecS {
    fn word(&mut self, w: u64) {
        if self.n < HS {
            self.buf[self.n] = w;
        }
        self.n += 1;
    }
}
impl Hasher for RecS {
    fn finish(&self) -> u64 {
        self.n as u64
    }
    fn write(&mut self, bytes: &[u8]) {
        let mut i = 0;
        while i < bytes.len() {
            self.word(bytes[i] as u64 | 0x100);
            i += 1;
        }
    }
    fn write_u8(&mut self, i: u8) { self.word(i as u64) }
    fn write_u16(&mut self, i: u16) { self.word(i as u64) }
    fn write_u32(&mut self, i: u32) { self.word(i as u64) }
    fn write_u64(&mut self, i: u64) { self.word(i) }
    fn write_usize(&mut self, i: usize) { self.word(i as u64) }
    fn write_i8(&mut self, i: i8) { self.word(i as u64) }
    fn write_i16(&mut self, i: i16) { self.word(i as u64) }
    fn write_i32(&mut self, i: i32) { self.word(i as u64) }
    fn write_i64(&mut self, i: i64) { self.word(i as u64) }
    fn write_isize(&mut self, i: isize) { self.word(i as u64) }
}
pub fn stream_s<T: Hash>(v: &T) -> RecS {
    let mut h = RecS { buf: [0; HS], n: 0 };
    v.hash(&mut h);
    assert!(h.n <= HS, "hash stream longer than the recording buffer (harness bound)");
    h
}
pub fn same_stream_s(a: &RecS, b: &RecS) -> bool {
    if a.n != b.n {
        return false;
    }
    let mut ok = true;
    unroll10!(I, { if I < a.n && a.buf[I] != b.buf[I] { ok = false; } });
    unroll6!(I, { if I + 10 < a.n && a.buf[I + 10] != b.buf[I + 10] { ok = false; } });
    ok
}

type S1<const I: usize> = Skipped<W<I>, Sx, 1>;
fn sk<const I: usize>() -> (S1<I>, u8, u8) {
    let (m, s) = (nd::u8(), nd::u8());
    (Skipped { skipped: [Sx(s)], matched: W::<I>(m) }, m, s)
}

fn seq2_eq_hash() {
    let (a0, am0, as0) = sk::<0>();
    let (a1, am1, as1) = sk::<1>();
    let (b0, bm0, bs0) = sk::<0>();
    let (b1, bm1, bs1) = sk::<1>();
    let a = Seq2::from((a0, a1));
    let b = Seq2::from((b0, b1));
    let fieldwise = am0 == bm0 && as0 == bs0 && am1 == bm1 && as1 == bs1;
    assert!((a == b) == fieldwise, "Seq2 == is not field-wise (matched and skipped items of every element)");
    assert!((a.content == b.content) == (a == b), "hand-written == of Seq2 disagrees with the tuple's derived ==");
    let (ha, hb) = (stream(&a), stream(&b));
    assert!(same_stream(&ha, &hb) == fieldwise, "Seq2 hash does not feed exactly the fields == compares");
    let c = a.clone();
    assert!(c == a && same_stream(&stream(&c), &ha), "clone differs from its original");
    cover!(fieldwise, "equal");
    cover!(!fieldwise && am0 == bm0 && am1 == bm1 && as0 == bs0, "differ only in the last skipped item");
}
fn seq3_eq_hash() {
    let (a0, am0, as0) = sk::<0>();
    let (a1, am1, as1) = sk::<1>();
    let (a2, am2, as2) = sk::<2>();
    let (b0, bm0, bs0) = sk::<0>();
    let (b1, bm1, bs1) = sk::<1>();
    let (b2, bm2, bs2) = sk::<2>();
    let a = Seq3::from((a0, a1, a2));
    let b = Seq3::from((b0, b1, b2));
    let fieldwise = am0 == bm0 && as0 == bs0 && am1 == bm1 && as1 == bs1 && am2 == bm2 && as2 == bs2;
    assert!((a == b) == fieldwise, "Seq3 == is not field-wise");
    assert!(same_stream(&stream(&a), &stream(&b)) == fieldwise, "Seq3 hash does not feed exactly the fields == compares");
    assert!(a.clone() == a);
    cover!(!fieldwise && am0 == bm0 && am1 == bm1 && as0 == bs0 && as1 == bs1 && as2 == bs2, "differ only in the last element");
}
fn seq12_eq_hash() {
    // elements without skipped item (SKIP = 0) to keep the value small
    type E<const I: usize> = Skipped<W<I>, Sx, 0>;
    fn e<const I: usize>(v: u8) -> E<I> {
        Skipped { skipped: [], matched: W::<I>(v) }
    }
    let x: [u8; 12] = core::array::from_fn(|_| nd::u8());
    let y: [u8; 12] = core::array::from_fn(|_| nd::u8());
    let a = Seq12::from((e::<0>(x[0]), e::<1>(x[1]), e::<2>(x[2]), e::<3>(x[3]), e::<4>(x[4]), e::<5>(x[5]), e::<6>(x[6]), e::<7>(x[7]), e::<8>(x[8]), e::<9>(x[9]), e::<10>(x[10]), e::<11>(x[11])));
    let b = Seq12::from((e::<0>(y[0]), e::<1>(y[1]), e::<2>(y[2]), e::<3>(y[3]), e::<4>(y[4]), e::<5>(y[5]), e::<6>(y[6]), e::<7>(y[7]), e::<8>(y[8]), e::<9>(y[9]), e::<10>(y[10]), e::<11>(y[11])));
    let mut fieldwise = true;
    let mut i = 0;
    while i < 12 {
        if x[i] != y[i] {
            fieldwise = false;
        }
        i += 1;
    }
    assert!((a == b) == fieldwise, "Seq12 == is not field-wise");
    assert!(same_stream(&stream(&a), &stream(&b)) == fieldwise, "Seq12 hash does not feed exactly the fields == compares");
    cover!(!fieldwise && x[0] == y[0] && x[10] == y[10], "differ in a late element only");
}
fn choice3_eq_hash() {
    let mk = || -> (Choice3<W<0>, W<1>, W<2>>, u8, u8) {
        let sel = nd::u8();
        nd::assume(sel < 3);
        let v = nd::u8();
        (match sel { 0 => Choice3::_0(W::<0>(v)), 1 => Choice3::_1(W::<1>(v)), _ => Choice3::_2(W::<2>(v)) }, sel, v)
    };
    let (a, sa, va) = mk();
    let (b, sb, vb) = mk();
    let same = sa == sb && va == vb;
    assert!((a == b) == same, "Choice3 == is not (same alternative and equal content)");
    if same {
        assert!(same_stream(&stream(&a), &stream(&b)), "equal choices hash differently");
    }
    if sa != sb && va == vb {
        assert!(!same_stream(&stream(&a), &stream(&b)), "the alternative index is not fed to the hasher");
    }
    assert!(a.clone() == a);
    cover!(sa != sb && va == vb, "same content in different alternatives");
}
fn wrappers_eq_hash() {
    let (x, y, sx, sy) = (nd::u8(), nd::u8(), nd::u8(), nd::u8());
    let a = Skipped::<W<0>, Sx, 1> { skipped: [Sx(sx)], matched: W::<0>(x) };
    let b = Skipped::<W<0>, Sx, 1> { skipped: [Sx(sy)], matched: W::<0>(y) };
    assert!((a == b) == (x == y && sx == sy), "Skipped == ignores the skipped item or the matched item");
    assert!(same_stream(&stream(&a), &stream(&b)) == (x == y && sx == sy));
    let pa = Push::from(W::<0>(x));
    let pb = Push::from(W::<0>(y));
    assert!((pa == pb) == (x == y) && same_stream(&stream(&pa), &stream(&pb)) == (x == y));
    let qa = Positive::from(W::<0>(x));
    let qb = Positive::from(W::<0>(y));
    assert!((qa == qb) == (x == y) && same_stream(&stream(&qa), &stream(&qb)) == (x == y));
    assert!(pa.clone() == pa && qa.clone() == qa && a.clone() == a);
    cover!(x == y && sx != sy, "differ only in the skipped item");
}
fn span_pos_eq_hash() {
    let s = XXX;
    let (a0, a1, b0, b1) = (nd::usize(), nd::usize(), nd::usize(), nd::usize());
    let (a, b) = (Span::new(s, a0, a1), Span::new(s, b0, b1));
    nd::assume(a.is_some() && b.is_some());
    let (a, b) = (a.unwrap(), b.unwrap());
    let same = a0 == b0 && a1 == b1;
    assert!((a == b) == same);
    assert!(same_stream(&stream(&a), &stream(&b)) == same, "Span hash does not feed exactly start and end (and the input identity)");
    let (p, q) = (Position::new(s, a0).unwrap(), Position::new(s, b0).unwrap());
    assert!((p == q) == (a0 == b0));
    assert!(same_stream(&stream(&p), &stream(&q)) == (a0 == b0));
    cover!(!same && a.as_str().len() == b.as_str().len(), "equal length, different place");
}

/// Rule structs with public fields: == is (content, span) field-wise and hash agrees; leaves that carry text.
fn rule_struct_eq_hash() {
    use pest_typed::predefined_node::Skipped;
    type Inner = Seq2<Skipped<Abs<0, 1>, AbsSkip<3>, 1>, Skipped<Abs<1, 2>, AbsSkip<3>, 1>>;
    let mk = |a: usize, b: usize, sk: usize| -> Inner {
        Seq2::from((
            Skipped { skipped: [AbsSkip::<3> { n: 0 }], matched: Abs::<0, 1> { start: a, end: b } },
            Skipped { skipped: [AbsSkip::<3> { n: sk }], matched: Abs::<1, 2> { start: b + sk, end: b + sk } },
        ))
    };
    let (a0, a1, ak, b0, b1, bk) = (nd::usize(), nd::usize(), nd::usize(), nd::usize(), nd::usize(), nd::usize());
    nd::assume(a0 <= a1 && a1 <= 3 && ak <= 3 && b0 <= b1 && b1 <= 3 && bk <= 3);
    let (sa0, sa1, sb0, sb1) = (nd::usize(), nd::usize(), nd::usize(), nd::usize());
    let (sa, sb) = (Span::new(XXX, sa0, sa1), Span::new(XXX, sb0, sb1));
    nd::assume(sa.is_some() && sb.is_some());
    let x = rules::normal::<'_, 1> { content: mk(a0, a1, ak), span: sa.unwrap() };
    let y = rules::normal::<'_, 1> { content: mk(b0, b1, bk), span: sb.unwrap() };
    let same_content = a0 == b0 && a1 == b1 && ak == bk;
    let same_span = sa0 == sb0 && sa1 == sb1;
    assert!((x == y) == (same_content && same_span), "rule struct == is not (content and span)");
    if x == y {
        assert!(same_stream(&stream(&x), &stream(&y)), "equal rule structs hash differently");
    }
    let cx = rules::non_atomic::<'_, 1> { content: mk(a0, a1, ak), span: sa.unwrap() };
    let cy = rules::non_atomic::<'_, 1> { content: mk(b0, b1, bk), span: sb.unwrap() };
    assert!((cx == cy) == (same_content && same_span), "non-atomic rule struct == is not (content and span)");
    let bx = rules::normal_boxed::<'_, 1> { content: Box::new(mk(a0, a1, ak)), span: sa.unwrap() };
    let by = rules::normal_boxed::<'_, 1> { content: Box::new(mk(b0, b1, bk)), span: sb.unwrap() };
    assert!((bx == by) == (same_content && same_span), "boxed rule struct == is not (content and span)");
    cover!(same_span && !same_content, "same span, different content");
    cover!(same_content && !same_span, "same content, different span");
    core::mem::forget(bx);
    core::mem::forget(by);
}
/// `==` of two case-insensitive matches alone (no hash streams: small unwind, so that a change of the
/// comparison is decided in seconds whatever it does to the cost of the stream harness below).
fn insens_eq() {
    let buf = nd::ascii_buf::<4>(b"abA");
    let s = nd::as_str(&buf);
    let a = Insens::<'_, AB>::from(&s[0..2]);
    let b = Insens::<'_, AB>::from(&s[2..4]);
    let same_text = buf[0] == buf[2] && buf[1] == buf[3];
    assert!((a == b) == same_text, "Insens == does not compare the matched text");
    assert!(a.clone() == a, "clone of an Insens node differs from its original");
    cover!(same_text, "same spelling at different offsets");
    cover!(!same_text && buf[0] == b'a' && buf[2] == b'A' && buf[1] == buf[3], "spellings that differ in case only");
}
fn insens_eq_hash() {
    let buf = nd::ascii_buf::<4>(b"abA");
    let s = nd::as_str(&buf);
    let a = Insens::<'_, AB>::from(&s[0..2]);
    let b = Insens::<'_, AB>::from(&s[2..4]);
    let same_text = buf[0] == buf[2] && buf[1] == buf[3];
    assert!((a == b) == same_text, "Insens == does not compare the matched text");
    if a == b {
        assert!(same_stream(&stream(&a), &stream(&b)), "equal Insens nodes (same spelling at different offsets) hash differently");
    }
    let c = CharRange::<'a', 'z'> { content: buf[0] as char };
    let d = CharRange::<'a', 'z'> { content: buf[1] as char };
    assert!((c == d) == (buf[0] == buf[1]) && (same_stream(&stream(&c), &stream(&d)) == (buf[0] == buf[1])));
    cover!(same_text, "same spelling at different offsets");
}

/// Parsing the same input twice (second time with a *used* tracker, after an unrelated parse) gives equal
/// values with equal hash streams; results from different positions are equal exactly when structurally identical.
macro_rules! reparse {
    ($fname:ident, $ty:ty) => {
        fn $fname() {
            abs_init(3, FREE);
            let (p0, p1) = (nd::usize(), nd::usize());
            nd::assume(p0 <= 3 && p1 <= 3);
            let mut tr = Tracker::<R>::new(XXX.as_input());
            let mut st = fresh_stack(XXX, 1);
            let r1 = <$ty as TypedNode<R>>::try_parse_partial_with(Position::new(XXX, p0).unwrap(), &mut st, &mut tr);
            // an unrelated parse in between, same tracker, its own stack
            let mut st_x = fresh_stack(XXX, 1);
            let rx = <$ty as TypedNode<R>>::try_parse_partial_with(Position::new(XXX, p1).unwrap(), &mut st_x, &mut tr);
            let mut st2 = fresh_stack(XXX, 1);
            let r2 = <$ty as TypedNode<R>>::try_parse_partial_with(Position::new(XXX, p0).unwrap(), &mut st2, &mut tr);
            match (&r1, &r2) {
                (None, None) => {}
                (Some((i1, v1)), Some((i2, v2))) => {
                    assert!(pest_typed::Input::byte_offset(i1) == pest_typed::Input::byte_offset(i2), "second parse of the same input stops elsewhere");
                    assert!(v1 == v2, "second parse of the same input gives a different tree");
                    assert!(same_stream(&stream(v1), &stream(v2)), "equal trees hash differently");
                    let c = v1.clone();
                    assert!(&c == v1 && same_stream(&stream(&c), &stream(v1)), "clone differs from its original");
                }
                _ => panic!("second parse of the same input gives a different verdict"),
            }
            if let (Some((_, v1)), Some((_, vx))) = (&r1, &rx) {
                if p0 != p1 && pest_typed::Input::byte_offset(&r1.as_ref().unwrap().0) > p0 {
                    // different, non-empty matches of one input object are different values
                    assert!(v1 != vx || same_stream(&stream(v1), &stream(vx)));
                }
                if v1 == vx {
                    assert!(same_stream(&stream(v1), &stream(vx)), "equal results hash differently");
                }
            }
            cover!(r1.is_some() && rx.is_some() && p0 != p1, "two accepted sub-inputs");
            core::mem::forget(st);
            core::mem::forget(st_x);
            core::mem::forget(st2);
            core::mem::forget(tr);
            core::mem::forget(r1);
            core::mem::forget(r2);
            core::mem::forget(rx);
        }
    };
}
/// Rule structs over real leaves (`"a" ~ "b"?` with a space-skipping skip node), for results obtained
/// through different sub-ranges of one input object.
pub mod leafrules {
    use super::*;
    type Inner<'i, const S: usize> = Seq2<Skipped<Str<A>, Ws, S>, Skipped<Option<Str<B>>, Ws, S>>;
    pest_typed::normal_rule!(nr, "normal rule over real leaves", R, R::X, Inner<'i, INHERITED>, Ws, false);
    pest_typed::atomic_rule!(ar, "atomic rule over real leaves", R, R::X, Inner<'i, 0>);
}
/// The same rule matched on the same bytes of one input object, once reached through `Position(s, p)` and
/// once through the sub-range `Span(s, p, e)`: when both stop at the same offset the two results are
/// structurally identical, so they are `==` and feed equal hash streams; and whatever the two results
/// are, `==` implies equal hash streams.
macro_rules! sub_ranges {
    ($fname:ident, $ty:ty) => {
        fn $fname() {
            let buf = nd::ascii_buf::<4>(b"ab ");
            let s = nd::as_str(&buf);
            let (p, e) = (nd::usize(), nd::usize());
            nd::assume(p <= e && e <= 4);
            // one tracker per parse, created from that parse's input exactly as `try_parse_partial` does
            let in1 = Position::new(s, p).unwrap().as_input();
            let mut tr = Tracker::<R>::new(in1);
            let mut st1 = fresh_stack(s, 0);
            let r1 = <$ty as TypedNode<R>>::try_parse_partial_with(in1, &mut st1, &mut tr);
            let in2 = Span::new(s, p, e).unwrap().as_input();
            let mut tr2 = Tracker::<R>::new(in2);
            let mut st2 = fresh_stack(s, 0);
            let r2 = <$ty as TypedNode<R>>::try_parse_partial_with(in2, &mut st2, &mut tr2);
            if let (Some((i1, v1)), Some((i2, v2))) = (&r1, &r2) {
                let same_end = pest_typed::Input::byte_offset(i1) == pest_typed::Input::byte_offset(i2);
                if same_end {
                    assert!(v1 == v2, "same bytes of one input object matched through Position and through a Span sub-range: results differ");
                }
                if v1 == v2 {
                    assert!(same_stream_s(&stream_s(v1), &stream_s(v2)), "equal results (Position input vs Span sub-range input) hash differently");
                }
                cover!(same_end && e < 4 && pest_typed::Input::byte_offset(i1) > p, "non-empty match through a sub-range that ends before the input does");
            }
            core::mem::forget(st1);
            core::mem::forget(st2);
            core::mem::forget(tr);
            core::mem::forget(tr2);
            core::mem::forget(r1);
            core::mem::forget(r2);
        }
    };
}
sub_ranges!(sub_ranges_normal, leafrules::nr<'_, 1>);
sub_ranges!(sub_ranges_atomic, leafrules::ar<'_, 1>);

reparse!(reparse_normal, rules::normal<'_, 1>);
reparse!(reparse_silent, rules::silent<'_, 1>);
reparse!(reparse_atomic, rules::atomic<'_, 1>);
reparse!(reparse_compound, rules::compound<'_, 1>);
reparse!(reparse_non_atomic, rules::non_atomic<'_, 1>);
reparse!(reparse_rep, RepMinMax<Abs<0, 1>, AbsSkip<3>, 1, 0, 2>);

harnesses! {
    #[kani::unwind(42)] fn c18_seq2() [] : "Q|Seq2: == field-wise (incl. skipped items) and equal to the tuple's ==; hash stream equal exactly when ==; clone; symbolic fields" { seq2_eq_hash() }
    #[kani::unwind(42)] fn c18_seq3() [] : "Q|Seq3: ==/hash/clone field-wise" { seq3_eq_hash() }
    #[kani::unwind(42)] fn c18_seq12() [] : "Q|Seq12: ==/hash field-wise over all 12 elements" { seq12_eq_hash() }
    #[kani::unwind(42)] fn c18_choice3() [] : "Q|Choice3: == same alternative and content; hash feeds the alternative" { choice3_eq_hash() }
    #[kani::unwind(42)] fn c18_wrappers() [] : "Q|Skipped / Push / Positive: ==/hash/clone field-wise" { wrappers_eq_hash() }
    #[kani::unwind(42)] fn c18_span_position() [] : "Q|Span / Position of one input object: ==/hash exactly on offsets; all sub-ranges of a 3-byte string" { span_pos_eq_hash() }
    #[kani::unwind(42)] fn c18_rule_struct() [] : "Q|normal / non-atomic / boxed rule structs built from public fields: == exactly (content and span), equal values hash equally" { rule_struct_eq_hash() }
    #[kani::unwind(6)] fn c18_insens_eq() [] : "Q|Insens: == exactly on the matched text (spellings differing in case only are different), clone == original" { insens_eq() }
    #[kani::unwind(42)] fn c18_insens_range() [] : "Q|Insens: == on the matched text, equal spellings at different offsets hash equally; CharRange == / hash on the character" { insens_eq_hash() }
    #[kani::unwind(7)] fn c18_subrange_normal() [T0] : "Q|normal rule over real leaves: result through Position(s,p) vs through the sub-range Span(s,p,e) of the same input object: same end => == and equal hash stream; == => equal hash stream; 4 bytes over {a,b,' '}" { sub_ranges_normal() }
    #[kani::unwind(7)] fn c18_subrange_atomic() [T0] : "Q|atomic rule over real leaves: same" { sub_ranges_atomic() }
    #[kani::unwind(42)] fn c18_reparse_normal() [T0 S] : "Q|normal rule: parsing the same input again (used tracker, unrelated parse in between) gives an equal tree with an equal hash stream; clone; abstract children, 3 positions" { reparse_normal() }
    #[kani::unwind(42)] fn c18_reparse_silent() [T0 S] : "Q|silent rule: same" { reparse_silent() }
    #[kani::unwind(42)] fn c18_reparse_atomic() [T0 S] : "Q|atomic rule: same" { reparse_atomic() }
    #[kani::unwind(42)] fn c18_reparse_compound() [T0 S] : "Q|compound-atomic rule: same" { reparse_compound() }
    #[kani::unwind(42)] fn c18_reparse_non_atomic() [T0 S] : "Q|non-atomic rule: same" { reparse_non_atomic() }
    #[kani::unwind(42)] fn c18_reparse_rep() [T0 S] : "X|(no verdict within 3600 s: Vec content eq+hash) bounded repetition with skipped items (Vec content): same" { reparse_rep() }
}
