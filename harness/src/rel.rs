//! Abstract children and the relational runner shared by C01/C03/C05/C19/C04 (Layer R).
use crate::common::*;
use crate::nd;
use crate::refpeg::*;
use crate::stubs;
use pest_typed::iterators::{Pairs, Token};
use pest_typed::tracker::Tracker;
use pest_typed::{AsInput, Input, Position, Span, Stack, TypedNode};

/// Abstract child: outcome read from the symbolic table (see refpeg::TABLE); parse and check
/// are the same function of (position, stack), i.e. the child satisfies the contract by construction.
#[derive(Clone, Debug, PartialEq, Eq, Hash)]
pub struct Abs<const ID: usize, const KIND: u8> {
    pub start: usize,
    pub end: usize,
}
fn abs_step<'i, const ID: usize, const KIND: u8, I: Input<'i>>(
    input: &mut I,
    stack: &mut Stack<Span<'i>>,
) -> Option<(usize, usize)> {
    if KIND == 2 {
        stack.pop()?;
    }
    let v = abs_outcome(ID, KIND, input.byte_offset(), stack.len());
    if v == 0 {
        return None;
    }
    let before = *input;
    let start = input.byte_offset();
    unsafe { *input.cursor() += (v - 1) as usize };
    if KIND == 1 {
        stack.push(before.span(*input));
    }
    Some((start, input.byte_offset()))
}
impl<'i, const ID: usize, const KIND: u8> TypedNode<'i, R> for Abs<ID, KIND> {
    fn try_parse_partial_with<I: Input<'i>>(
        mut input: I,
        stack: &mut Stack<Span<'i>>,
        _tracker: &mut Tracker<'i, R>,
    ) -> Option<(I, Self)> {
        let (start, end) = abs_step::<ID, KIND, I>(&mut input, stack)?;
        Some((input, Abs { start, end }))
    }
    fn try_check_partial_with<I: Input<'i>>(
        mut input: I,
        stack: &mut Stack<Span<'i>>,
        _tracker: &mut Tracker<'i, R>,
    ) -> Option<I> {
        abs_step::<ID, KIND, I>(&mut input, stack)?;
        Some(input)
    }
}
impl<'i, const ID: usize, const KIND: u8> Pairs<'i, R> for Abs<ID, KIND> {
    fn for_self_or_each_child(&self, _f: &mut impl FnMut(Token<'i, R>)) {}
}
/// Abstract never-failing skip (reads table row ID; outcome 0 is read as "advance 0").
#[derive(Clone, Debug, Default, PartialEq, Eq, Hash)]
pub struct AbsSkip<const ID: usize> {
    pub n: usize,
}
impl<'i, const ID: usize> pest_typed::NeverFailedTypedNode<'i, R> for AbsSkip<ID> {
    fn parse_with<I: Input<'i>>(input: I, stack: &mut Stack<Span<'i>>) -> (I, Self) {
        let s = input.byte_offset();
        let e = <Self as pest_typed::NeverFailedTypedNode<'i, R>>::check_with(input, stack);
        (e, AbsSkip { n: e.byte_offset() - s })
    }
    fn check_with<I: Input<'i>>(mut input: I, _stack: &mut Stack<Span<'i>>) -> I {
        let v = abs_outcome(ID, 0, input.byte_offset(), 0);
        if v > 0 {
            unsafe { *input.cursor() += (v - 1) as usize };
        }
        input
    }
}
impl<'i, const ID: usize> Pairs<'i, R> for AbsSkip<ID> {
    fn for_self_or_each_child(&self, _f: &mut impl FnMut(Token<'i, R>)) {}
}
pub struct RAbsSkip<const ID: usize>;
impl<const ID: usize> RefNode for RAbsSkip<ID> {
    fn eval(_c: Ctx<'_>, mut s: RefState) -> Option<RefState> {
        let v = abs_outcome(ID, 0, s.pos, 0);
        if v > 0 {
            s.pos += (v - 1) as usize;
        }
        Some(s)
    }
}
/// Reference of the concrete `Ws` skip node of common.rs.
pub struct RWs;
impl RefNode for RWs {
    fn eval(c: Ctx<'_>, mut s: RefState) -> Option<RefState> {
        s.pos = ref_ws(c.b, s.pos, c.end);
        Some(s)
    }
}

/// Stack contents as (start, end) pairs, bottom first. Under Kani the stack is the stub model
/// (stub set S); in a native replay it is the real `pest::Stack`.
#[derive(Clone, Copy)]
pub struct Contents {
    pub len: usize,
    pub data: [(usize, usize); stubs::CAP],
    pub open_snapshots: usize,
}
#[cfg(kani)]
pub fn contents(_stack: &Stack<Span<'_>>) -> Contents {
    let m = stubs::stack_get();
    let mut data = [(0, 0); stubs::CAP];
    unroll6!(I, {
        if I < m.len {
            data[I] = (m.data[I][2], m.data[I][3]);
        }
    });
    Contents { len: m.len, data, open_snapshots: m.nsnaps }
}
#[cfg(not(kani))]
pub fn contents(stack: &Stack<Span<'_>>) -> Contents {
    contents_real(stack)
}
/// Contents of the real `pest::Stack` (harnesses that run without stub set S).
pub fn contents_real(stack: &Stack<Span<'_>>) -> Contents {
    let mut data = [(0, 0); stubs::CAP];
    let n = stack.len();
    let all = &stack[0..n];
    for i in 0..n.min(stubs::CAP) {
        data[i] = (all[i].start(), all[i].end());
    }
    Contents { len: n, data, open_snapshots: real_open_snapshots(stack) }
}
/// Number of snapshots the real stack holds open. `pest::Stack` has no accessor for it; natively it is read off
/// the derived `Debug` rendering (`lengths: [(len, remained), ..]`, pest =2.7.14 as pinned by the harness crate),
/// so that a "snapshot left open" counterexample found on the stub model can be replayed on the real stack.
/// Under Kani (harnesses that run on the real stack) formatting is out of reach and the count is not observed.
#[cfg(not(kani))]
fn real_open_snapshots(stack: &Stack<Span<'_>>) -> usize {
    let d = format!("{:?}", stack);
    match d.rfind("lengths: [") {
        Some(i) => d[i..].matches('(').count(),
        None => 0,
    }
}
#[cfg(kani)]
fn real_open_snapshots(_stack: &Stack<Span<'_>>) -> usize {
    0
}
pub fn same_contents(a: &Contents, b: &Contents) -> bool {
    if a.len != b.len {
        return false;
    }
    let mut ok = true;
    unroll6!(I, {
        if I < a.len && a.data[I] != b.data[I] {
            ok = false;
        }
    });
    ok
}
pub fn matches_ref(a: &Contents, r: &RefState) -> bool {
    if a.len != r.sl {
        return false;
    }
    let mut ok = true;
    unroll6!(I, {
        if I < a.len && a.data[I] != r.st[I] {
            ok = false;
        }
    });
    ok
}
/// A fresh stack holding `d` entries (1 byte each at offsets 0.., clipped to the text).
pub fn fresh_stack<'i>(s: &'i str, d: usize) -> Stack<Span<'i>> {
    stubs::stack_reset();
    let mut stack = Stack::new();
    let mut i = 0;
    while i < d {
        let a = if i < s.len() { i } else { s.len() };
        let b = if i + 1 <= s.len() { i + 1 } else { s.len() };
        stack.push(Span::new(s, a, b).unwrap());
        i += 1;
    }
    stack
}
pub fn fresh_ref(s: &str, p0: usize, d: usize) -> RefState {
    let mut r = RefState::new(p0);
    let mut i = 0;
    while i < d {
        let a = if i < s.len() { i } else { s.len() };
        let b = if i + 1 <= s.len() { i + 1 } else { s.len() };
        r = r.push((a, b));
        i += 1;
    }
    r
}

pub struct Outcome {
    pub parse: Option<usize>,
    pub check: Option<usize>,
    pub reference: Option<RefState>,
}
fn against_ref(cr: Option<usize>, after: &Contents, rr: &Option<RefState>) {
    match (cr, rr) {
        (None, None) => {}
        (Some(a), Some(r)) => {
            assert!(a == r.pos, "offset differs from the reference");
            assert!(matches_ref(after, r), "final stack differs from the reference");
        }
        (Some(_), None) => panic!("accepted where the reference rejects"),
        (None, Some(_)) => panic!("rejected where the reference accepts"),
    }
}
/// Run parse path, check path (each on a fresh stack of depth `d0`; under Kani the stubbed stack
/// model) and the reference; assert: same verdict, same cursor, same final stack contents.
/// Requires stub sets S and T0. Returns the parsed value for accessor checks.
pub fn pc_ref<'i, T: TypedNode<'i, R>, RT: RefNode>(s: &'i str, p0: usize, d0: usize) -> (Outcome, Option<T>) {
    let inp = Position::new(s, p0).unwrap();
    let mut tracker = Tracker::<R>::new(s.as_input());
    // parse path
    let mut stack_p = fresh_stack(s, d0);
    let pr = T::try_parse_partial_with(inp, &mut stack_p, &mut tracker);
    let after_parse = contents(&stack_p);
    // check path
    let mut stack_c = fresh_stack(s, d0);
    let cr = T::try_check_partial_with(inp, &mut stack_c, &mut tracker).map(|i| i.byte_offset());
    let after_check = contents(&stack_c);
    // reference
    let c = Ctx { b: s.as_bytes(), start: 0, end: s.len() };
    let rr = RT::eval(c, fresh_ref(s, p0, d0));
    if let Some(x) = rr {
        nd::assume(!x.overflow);
    }
    let po = pr.as_ref().map(|x| x.0.byte_offset());
    match (po, cr) {
        (None, None) => {}
        (Some(a), Some(b)) => {
            assert!(a == b, "parse and check stop at different offsets");
            assert!(same_contents(&after_parse, &after_check), "parse and check leave different stacks");
        }
        _ => panic!("parse and check verdicts differ"),
    }
    against_ref(cr, &after_check, &rr);
    // snapshots are balanced: nothing left open
    assert!(after_check.open_snapshots == 0 && after_parse.open_snapshots == 0, "snapshot left open");
    core::mem::forget(stack_p);
    core::mem::forget(stack_c);
    core::mem::forget(tracker);
    (Outcome { parse: po, check: cr, reference: rr }, pr.map(|x| x.1))
}
/// Check path and reference only (cheaper; used where the parse path is covered elsewhere).
pub fn c_ref<'i, T: TypedNode<'i, R>, RT: RefNode>(s: &'i str, p0: usize, d0: usize) -> Outcome {
    let inp = Position::new(s, p0).unwrap();
    let mut tracker = Tracker::<R>::new(s.as_input());
    let mut stack = fresh_stack(s, d0);
    let cr = T::try_check_partial_with(inp, &mut stack, &mut tracker).map(|i| i.byte_offset());
    let after_check = contents(&stack);
    let c = Ctx { b: s.as_bytes(), start: 0, end: s.len() };
    let rr = RT::eval(c, fresh_ref(s, p0, d0));
    if let Some(x) = rr {
        nd::assume(!x.overflow);
    }
    against_ref(cr, &after_check, &rr);
    assert!(after_check.open_snapshots == 0, "snapshot left open");
    core::mem::forget(stack);
    core::mem::forget(tracker);
    Outcome { parse: None, check: cr, reference: rr }
}
/// Parse path and reference only.
pub fn p_ref<'i, T: TypedNode<'i, R>, RT: RefNode>(s: &'i str, p0: usize, d0: usize) -> (Outcome, Option<T>) {
    let inp = Position::new(s, p0).unwrap();
    let mut tracker = Tracker::<R>::new(s.as_input());
    let mut stack = fresh_stack(s, d0);
    let pr = T::try_parse_partial_with(inp, &mut stack, &mut tracker);
    let after = contents(&stack);
    let c = Ctx { b: s.as_bytes(), start: 0, end: s.len() };
    let rr = RT::eval(c, fresh_ref(s, p0, d0));
    if let Some(x) = rr {
        nd::assume(!x.overflow);
    }
    let po = pr.as_ref().map(|x| x.0.byte_offset());
    against_ref(po, &after, &rr);
    assert!(after.open_snapshots == 0, "snapshot left open");
    core::mem::forget(stack);
    core::mem::forget(tracker);
    (Outcome { parse: po, check: None, reference: rr }, pr.map(|x| x.1))
}

pub const XXX: &str = "xxx";
pub const XXXXX: &str = "xxxxx";
