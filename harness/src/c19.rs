//! C19 — counted repetition and raw combinators obey their bounds.
use crate::nd;
use crate::stubs;
use pest_typed::predefined_node::*;
use pest_typed::tracker::Tracker;
use pest_typed::{Input, Stack, TypedNode, Span, StringWrapper};
use pest_typed::AsInput;

#[derive(Clone, Copy, Debug, Eq, Hash, Ord, PartialEq, PartialOrd)]
pub enum R { X, EOI }

#[derive(Clone, PartialEq)] pub struct A;
impl StringWrapper for A { const CONTENT: &'static str = "a"; }
#[derive(Clone, PartialEq)] pub struct SP;
impl StringWrapper for SP { const CONTENT: &'static str = " "; }
type Ws<'i> = AtomicRepeat<Str<SP>>;

fn probe() {
    let buf = nd::ascii_buf::<3>(b"a x");
    let s = nd::as_str(&buf);
    let mut stack = Stack::new();
    let input = s.as_input();
    let mut tracker = Tracker::<R>::new(input);
    stubs::stack_reset();
    let r = <RepMin<Str<A>, Ws<'_>, 1, 1> as TypedNode<R>>::try_check_partial_with(input, &mut stack, &mut tracker);
    // reference
    let b = s.as_bytes();
    let mut pos = 0usize;
    let mut n = 0;
    if b[0] == b'a' { pos = 1; n = 1;
        let mut p = pos;
        // iteration 2
        let mut q = p; while q < 3 && b[q] == b' ' { q += 1; }
        if q < 3 && b[q] == b'a' { p = q + 1; n = 2;
            let mut q = p; while q < 3 && b[q] == b' ' { q += 1; }
            if q < 3 && b[q] == b'a' { p = q + 1; n = 3; }
        }
        pos = p;
    }
    cover!(n == 2 && pos == 3, "skip consumed between iterations");
    match r {
        Some(i) => { assert!(n >= 1); assert!(i.byte_offset() == pos); }
        None => assert!(n == 0),
    }
    core::mem::forget(stack); core::mem::forget(tracker);
}

fn probe2() {
    let buf = nd::ascii_buf::<3>(b"a x");
    let s = nd::as_str(&buf);
    let mut stack = Stack::new();
    let input = s.as_input();
    let mut tracker = Tracker::<R>::new(input);
    stubs::stack_reset();
    let r = <RepMin<Str<A>, Empty<'_>, 0, 1> as TypedNode<R>>::try_check_partial_with(input, &mut stack, &mut tracker);
    let b = s.as_bytes();
    let mut n = 0; while n < 3 && b[n] == b'a' { n += 1; }
    match r {
        Some(i) => { assert!(n >= 1); assert!(i.byte_offset() == n); }
        None => assert!(n == 0),
    }
    core::mem::forget(stack); core::mem::forget(tracker);
}
fn probe3() {
    let buf = nd::ascii_buf::<3>(b"a x");
    let s = nd::as_str(&buf);
    let mut stack = Stack::new();
    let input = s.as_input();
    stubs::stack_reset();
    let r = <Ws<'_> as pest_typed::NeverFailedTypedNode<R>>::check_with(input, &mut stack);
    let b = s.as_bytes();
    let mut n = 0; while n < 3 && b[n] == b' ' { n += 1; }
    assert!(r.byte_offset() == n);
    core::mem::forget(stack);
}
fn probe4() {
    let buf = nd::ascii_buf::<3>(b"a x");
    let s = nd::as_str(&buf);
    let input = s.as_input();
    let tracker = Tracker::<R>::new(input);
    drop(tracker);
}
fn probe5() {
    let buf = nd::ascii_buf::<3>(b"a x");
    let s = nd::as_str(&buf);
    let input = s.as_input();
    let tracker = Tracker::<R>::new(input);
    core::mem::forget(tracker);
}
harnesses! {
    #[kani::unwind(6)]
    fn c19_probe4() [T0 S] : "Q|probe" { probe4() }
    #[kani::unwind(6)]
    fn c19_probe5() [T0 S] : "Q|probe" { probe5() }
    #[kani::unwind(6)]
    fn c19_probe2() [T0 S] : "Q|probe" { probe2() }
    #[kani::unwind(6)]
    fn c19_probe3() [T0 S] : "Q|probe" { probe3() }
    #[kani::unwind(6)]
    fn c19_probe() [T0 S] : "Q|probe" { probe() }
}
