//! C19 — counted repetition and the raw combinators obey their stated bounds (runtime crate used directly).
use crate::c03::{Nk, RSk, Sk, FREE, PROG};
use crate::common::*;
use crate::nd;
use crate::refpeg::*;
use crate::rel::*;
use pest_typed::choices::*;
use pest_typed::predefined_node::*;
use pest_typed::sequence::*;
use pest_typed::TypedNode;

/// Bounded repetition of an abstract progressing child (id 0, kind K) with abstract skip:
/// MIN <= n <= MAX, n == reference count, parse == check == reference, and the final cursor is the
/// end of the last matched iteration (a skip not followed by a matched iteration is given back).
fn rep_abs<const SKIP: usize, const MIN: usize, const MAX: usize, const KIND: u8>(d0: usize) {
    rep_abs_with::<SKIP, MIN, MAX, KIND>(d0, PROG)
}
/// `adv` = FREE: the element may also match without consuming input (legal under a bounded MAX: `("a"*){1,3}`, `DROP{1,3}`)
fn rep_abs_with<const SKIP: usize, const MIN: usize, const MAX: usize, const KIND: u8>(d0: usize, adv: [u8; ABS_IDS]) {
    abs_init(3, adv);
    let p0 = nd::usize();
    nd::assume(p0 <= 3);
    let (o, v) = pc_ref::<RepMinMax<Abs<0, KIND>, AbsSkip<3>, SKIP, MIN, MAX>, RRep<RSk, SKIP, RAbs<0, KIND>, MIN, MAX>>(XXX, p0, d0);
    if let Some(v) = v {
        let n = v.content.len();
        assert!(n >= MIN && n <= MAX, "number of elements outside MIN..=MAX");
        assert!(n == o.reference.unwrap().last_reps, "element count differs from the reference");
        let end = o.parse.unwrap();
        if n > 0 {
            assert!(v.content[n - 1].matched.end == end, "cursor is not the end of the last matched iteration");
            assert!(v.content[0].matched.start == p0, "first iteration does not start at the cursor (skip before it?)");
        } else {
            assert!(end == p0, "zero iterations but input consumed");
        }
        let mut i = 1;
        while i < 3 {
            if i < n {
                assert!(v.content[i].matched.start >= v.content[i - 1].matched.end, "iterations overlap / out of order");
                if SKIP == 0 {
                    assert!(v.content[i].matched.start == v.content[i - 1].matched.end, "gap between iterations without skip");
                }
            }
            i += 1;
        }
        core::mem::forget(v);
    }
    cover!(o.check.is_some() && (MAX == 0 || o.reference.unwrap().last_reps == MAX || MAX > 3), "accepted (at MAX where reachable)");
    cover!(o.check.is_none() || MIN == 0, "rejected (n/a for MIN = 0)");
}
fn repmin_abs<const SKIP: usize, const MIN: usize, const KIND: u8>(d0: usize) {
    abs_init(3, PROG);
    let p0 = nd::usize();
    nd::assume(p0 <= 3);
    let (o, v) = pc_ref::<RepMin<Abs<0, KIND>, AbsSkip<3>, SKIP, MIN>, RRep<RSk, SKIP, RAbs<0, KIND>, MIN, { usize::MAX }>>(XXX, p0, d0);
    if let Some(v) = v {
        let n = v.content.len();
        assert!(n >= MIN, "fewer than MIN elements");
        assert!(n == o.reference.unwrap().last_reps, "element count differs from the reference");
        let end = o.parse.unwrap();
        if n > 0 {
            assert!(v.content[n - 1].matched.end == end, "cursor is not the end of the last matched iteration");
        } else {
            assert!(end == p0);
        }
        core::mem::forget(v);
    }
    cover!(o.check.is_some() && o.reference.unwrap().last_reps >= 2, "two or more iterations");
    cover!(o.check.is_none() || MIN == 0, "rejected (n/a for MIN = 0)");
}

/// `NeverFailedTypedNode` of `Rep` / `RepMinMax<_,0,MAX>` / `AtomicRepeat` (parse_with / check_with, the entry
/// points the skip machinery uses) agree with the fallible entry points.
fn never_failed(which: u8) {
    use pest_typed::tracker::Tracker;
    use pest_typed::{AsInput, Input, NeverFailedTypedNode, Position};
    abs_init(3, PROG);
    let p0 = nd::usize();
    nd::assume(p0 <= 3);
    let inp = Position::new(XXX, p0).unwrap();
    let mut tracker = Tracker::<R>::new(XXX.as_input());
    type A = RepMin<Abs<0, 1>, AbsSkip<3>, 1, 0>;
    type B = RepMinMax<Abs<0, 1>, AbsSkip<3>, 1, 0, 2>;
    type C = AtomicRepeat<Abs<0, 1>>;
    let mut s1 = fresh_stack(XXX, 0);
    let (a, n1) = match which {
        0 => { let (i, v) = <A as NeverFailedTypedNode<R>>::parse_with(inp, &mut s1); (i.byte_offset(), v.content.len()) }
        1 => { let (i, v) = <B as NeverFailedTypedNode<R>>::parse_with(inp, &mut s1); (i.byte_offset(), v.content.len()) }
        _ => { let (i, v) = <C as NeverFailedTypedNode<R>>::parse_with(inp, &mut s1); (i.byte_offset(), v.content.len()) }
    };
    let c1 = contents(&s1);
    let mut s2 = fresh_stack(XXX, 0);
    let b = match which {
        0 => <A as NeverFailedTypedNode<R>>::check_with(inp, &mut s2).byte_offset(),
        1 => <B as NeverFailedTypedNode<R>>::check_with(inp, &mut s2).byte_offset(),
        _ => <C as NeverFailedTypedNode<R>>::check_with(inp, &mut s2).byte_offset(),
    };
    let c2 = contents(&s2);
    let mut s3 = fresh_stack(XXX, 0);
    let c = match which {
        0 => check::<A, _>(inp, &mut s3, &mut tracker),
        1 => check::<B, _>(inp, &mut s3, &mut tracker),
        _ => check::<C, _>(inp, &mut s3, &mut tracker),
    };
    let c3 = contents(&s3);
    assert!(a == b && Some(a) == c, "parse_with / check_with / try_check_partial_with stop at different offsets");
    assert!(same_contents(&c1, &c2) && same_contents(&c2, &c3), "the never-failing entry points leave a different stack");
    assert!(c1.len == n1, "one push per element expected");
    cover!(n1 == 2, "two iterations");
    core::mem::forget(s1);
    core::mem::forget(s2);
    core::mem::forget(s3);
    core::mem::forget(tracker);
}

/// Concrete element kinds on text over a small alphabet.
fn conc<'i, T: TypedNode<'i, R>, RT: RefNode, const L: usize>(buf: &'i [u8; L], d0: usize, want: usize) {
    let s = nd::as_str(buf);
    let p0 = nd::usize();
    nd::assume(p0 <= L);
    let (o, _) = pc_ref::<T, RT>(s, p0, d0);
    cover!(o.check.is_some() && o.check.unwrap() >= p0 + want, "matched at least `want` bytes");
    cover!(o.check.is_none() || o.check == Some(p0), "rejected or matched empty");
}
macro_rules! conc_h {
    ($t:ty, $rt:ty, $l:expr, $alpha:expr, $d0:expr, $want:expr) => {{
        let buf = nd::ascii_buf::<{ $l }>($alpha);
        conc::<$t, $rt, { $l }>(&buf, $d0, $want)
    }};
}
type SkW<T> = Skipped<T, Ws, 1>;
type NkW<T> = Skipped<T, Ws, 0>;
type PushPop<'i> = Seq2<NkW<Push<Str<A>>>, NkW<POP<'i>>>;
type RPushPop = RSeq2<RWs, 0, RPush<RStr<A>>, RPop>;

harnesses! {
    // ---- RepMinMax: all MIN <= MAX in 0..3 with skip (abstract child), a selection without skip
    #[kani::unwind(5)] fn c19_mm_0_0_s() [T0 S] : "Q|RepMinMax<_,0,0> with skip: never iterates; abstract progressing child, 3 positions" { rep_abs::<1, 0, 0, 0>(0) }
    #[kani::unwind(5)] fn c19_mm_0_1_s() [T0 S] : "Q|RepMinMax<_,0,1> with skip" { rep_abs::<1, 0, 1, 0>(0) }
    #[kani::unwind(5)] fn c19_mm_0_2_s() [T0 S] : "Q|RepMinMax<_,0,2> with skip" { rep_abs::<1, 0, 2, 0>(0) }
    #[kani::unwind(5)] fn c19_mm_0_3_s() [T0 S] : "Q|RepMinMax<_,0,3> with skip" { rep_abs::<1, 0, 3, 0>(0) }
    #[kani::unwind(5)] fn c19_mm_1_1_s() [T0 S] : "Q|RepMinMax<_,1,1> with skip" { rep_abs::<1, 1, 1, 0>(0) }
    #[kani::unwind(5)] fn c19_mm_1_2_s() [T0 S] : "Q|RepMinMax<_,1,2> with skip (pushing child)" { rep_abs::<1, 1, 2, 1>(0) }
    #[kani::unwind(5)] fn c19_mm_1_3_s() [T0 S] : "Q|RepMinMax<_,1,3> with skip" { rep_abs::<1, 1, 3, 0>(0) }
    #[kani::unwind(5)] fn c19_mm_2_2_s() [T0 S] : "Q|RepMinMax<_,2,2> = RepExact<2> with skip" { rep_abs::<1, 2, 2, 0>(0) }
    #[kani::unwind(5)] fn c19_mm_2_3_s() [T0 S] : "Q|RepMinMax<_,2,3> with skip (popping child, depth 3)" { rep_abs::<1, 2, 3, 2>(3) }
    #[kani::unwind(5)] fn c19_mm_3_3_s() [T0 S] : "Q|RepMinMax<_,3,3> = RepExact<3> with skip" { rep_abs::<1, 3, 3, 0>(0) }
    #[kani::unwind(5)] fn c19_mm_0_2_n() [T0 S] : "Q|RepMinMax<_,0,2> without skip" { rep_abs::<0, 0, 2, 0>(0) }
    #[kani::unwind(5)] fn c19_mm_1_2_n() [T0 S] : "Q|RepMinMax<_,1,2> without skip" { rep_abs::<0, 1, 2, 0>(0) }
    #[kani::unwind(5)] fn c19_mm_2_3_n() [T0 S] : "Q|RepMinMax<_,2,3> without skip" { rep_abs::<0, 2, 3, 1>(0) }
    #[kani::unwind(5)] fn c19_mm_1_3_s_empty() [T0 S] : "Q|RepMinMax<_,1,3> with skip, element may match empty: still greedy up to MAX" { rep_abs_with::<1, 1, 3, 0>(0, FREE) }
    #[kani::unwind(5)] fn c19_mm_0_2_n_empty_pop() [T0 S] : "Q|RepMinMax<pop-kind,0,2> no skip, element may match empty (DROP{0,2}): performs MAX stack operations when it can" { rep_abs_with::<0, 0, 2, 2>(3, FREE) }
    #[kani::unwind(5)] fn c19_mm_2_3_s_empty_push() [T0 S] : "Q|RepMinMax<push-kind,2,3> with skip, element may match empty" { rep_abs_with::<1, 2, 3, 1>(0, FREE) }
    #[kani::unwind(5)] fn c19_mm_1_4_s() [T0 S] : "T|RepMinMax<_,1,4> with skip (MAX beyond the input)" { rep_abs::<1, 1, 4, 0>(0) }
    // ---- RepMin: MIN 0..3, skip on/off
    #[kani::unwind(5)] fn c19_min_0_s() [T0 S] : "Q|RepMin<_,0> with skip" { repmin_abs::<1, 0, 0>(0) }
    #[kani::unwind(5)] fn c19_min_1_s() [T0 S] : "Q|RepMin<_,1> with skip" { repmin_abs::<1, 1, 1>(0) }
    #[kani::unwind(5)] fn c19_min_2_s() [T0 S] : "Q|RepMin<_,2> with skip" { repmin_abs::<1, 2, 0>(0) }
    #[kani::unwind(5)] fn c19_min_3_s() [T0 S] : "Q|RepMin<_,3> with skip" { repmin_abs::<1, 3, 0>(0) }
    #[kani::unwind(5)] fn c19_min_0_n() [T0 S] : "Q|RepMin<_,0> without skip" { repmin_abs::<0, 0, 0>(0) }
    #[kani::unwind(5)] fn c19_min_2_n() [T0 S] : "Q|RepMin<_,2> without skip" { repmin_abs::<0, 2, 1>(0) }
    // ---- element kinds on concrete text
    #[kani::unwind(5)] fn c19_str_mm12_skip() [T0 S] : "Q|RepMinMax<\"a\",1,2> with WS skip on text: 4 bytes over {a,' ',x}" {
        conc_h!(RepMinMax<Str<A>, Ws, 1, 1, 2>, RRep<RWs, 1, RStr<A>, 1, 2>, 4, b"a x", 0, 3) }
    #[kani::unwind(5)] fn c19_choice_mm02() [T0 S] : "Q|RepMinMax<Choice2<\"ab\",\"a\">,0,2> no skip: greedy, ordered" {
        conc_h!(RepMinMax<Choice2<Str<AB>, Str<A>>, Ws, 0, 0, 2>, RRep<RWs, 0, RChoice2<RStr<AB>, RStr<A>>, 0, 2>, 4, b"abx", 0, 3) }
    #[kani::unwind(5)] fn c19_nested_rep() [T0 S] : "Q|RepMinMax<RepMinMax<\"a\",1,2>,0,2> with skip on the outer only" {
        conc_h!(RepMinMax<RepMinMax<Str<A>, Ws, 0, 1, 2>, Ws, 1, 0, 2>, RRep<RWs, 1, RRep<RWs, 0, RStr<A>, 1, 2>, 0, 2>, 4, b"a x", 0, 3) }
    #[kani::unwind(5)] fn c19_stackop_exact2() [T0 S] : "Q|RepExact<Seq2<Push<\"a\">,POP>,2> (stack op element)" {
        conc_h!(RepExact<PushPop<'_>, Ws, 0, 2>, RRep<RWs, 0, RPushPop, 2, 2>, 4, b"ab", 0, 4) }
    // ---- raw combinators
    #[kani::unwind(5)] fn c19_array0() [T0 S] : "Q|[T;0] matches empty" { conc_h!([Str<A>; 0], RArr<RStr<A>, 0>, 3, b"ab", 0, 0) }
    #[kani::unwind(5)] fn c19_array3() [T0 S] : "Q|[\"a\";3] = aaa" { conc_h!([Str<A>; 3], RArr<RStr<A>, 3>, 4, b"ab", 0, 3) }
    #[kani::unwind(5)] fn c19_pair() [T0 S] : "Q|(\"a\",\"ab\")" { conc_h!((Str<A>, Str<AB>), RPair<RStr<A>, RStr<AB>>, 4, b"ab", 0, 3) }
    #[kani::unwind(5)] fn c19_never_failed_rep() [T0 S] : "Q|Rep::parse_with / check_with (NeverFailedTypedNode) == try_check_partial_with; abstract pushing child" { never_failed(0) }
    #[kani::unwind(5)] fn c19_never_failed_repminmax() [T0 S] : "Q|RepMinMax<_,0,2>::parse_with / check_with == try_check_partial_with" { never_failed(1) }
    #[kani::unwind(5)] fn c19_never_failed_atomic_repeat() [T0 S] : "Q|AtomicRepeat::parse_with / check_with == try_check_partial_with" { never_failed(2) }
    #[kani::unwind(5)] fn c19_option_abs() [T0 S] : "Q|Option<Seq2<push,pure>> with abstract children: parse == check == reference incl. the stack when the body fails after pushing" {
        crate::c03::abs3nf::<Option<Seq2<Nk<Abs<0, 1>>, Nk<Abs<1, 0>>>>, ROpt<RSeq2<RSk, 0, RAbs<0, 1>, RAbs<1, 0>>>>(FREE, 1) }
    #[kani::unwind(5)] fn c19_array_pair_abs() [T0 S] : "Q|([T;2], T) of pushing/popping abstract children: parse == check == reference" {
        crate::c03::abs3::<([Abs<0, 1>; 2], Abs<1, 2>), RPair<RArr<RAbs<0, 1>, 2>, RAbs<1, 2>>>(FREE, 1) }
    #[kani::unwind(5)] fn c19_option() [T0 S] : "Q|Option<\"ab\">" { conc_h!(Option<Str<AB>>, ROpt<RStr<AB>>, 3, b"ab", 0, 2) }
    #[kani::unwind(5)] fn c19_atomic_repeat() [T0 S] : "Q|AtomicRepeat<Choice2<\" \",\"ab\">> (the skip-repeat node)" {
        conc_h!(AtomicRepeat<Choice2<Str<SP>, Str<AB>>>, RRep<REmpty, 0, RChoice2<RStr<SP>, RStr<AB>>, 0, { usize::MAX }>, 4, b"ab ", 0, 3) }
    #[kani::unwind(9)] fn c19_str_mm23_skip_5() [T0 S] : "T|RepMinMax<\"a\",2,3> with WS skip, 5 bytes" {
        conc_h!(RepMinMax<Str<A>, Ws, 1, 2, 3>, RRep<RWs, 1, RStr<A>, 2, 3>, 5, b"a x", 0, 4) }
    #[kani::unwind(10)] fn c19_str_min1_skip_6() [T0 S] : "T|RepMin<\"a\",1> with WS skip, 6 bytes" {
        conc_h!(RepMin<Str<A>, Ws, 1, 1>, RRep<RWs, 1, RStr<A>, 1, { usize::MAX }>, 6, b"a x", 0, 4) }
}
